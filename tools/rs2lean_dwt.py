"""Translator phase 4e ("handler mode"): functions that are GENERIC over a trait of arithmetic operations, written with closures that
mutate captured state and iterator chains over (sub-)slices - `DWTHandler::transform_to_rev` / `transform_from_rev`
(src/util/dwthandler.rs) - and the `NTTTables` wrappers that call them (src/util/ntt.rs).  Output: Gen/DwtFns.lean (`HC.GenD`).

The trait becomes a Lean structure of (possibly panicking) functions `Arithmetic α ρ σ` whose fields are read from the `trait` item;
a generic function takes it as its first parameter.  Everything is lowered to index loops with value semantics; every loop is an
auxiliary definition by recursion on its exact trip count that RETURNS the variables its body assigns.  Whatever is not listed in
TRANSLATOR.md (phase 4e) raises `Unsupported` (extract.py exits non-zero).  Uses the tokenizer / parser of rs2lean.py (passed in as T)."""
import re, os, hashlib

ID_RE = re.compile(r"\b(?:a|v|t)\d+\b")
LT = {"w": "Nat", "V": "α", "R": "ρ", "S": "σ", "mulop": "MulOperand", "mod": "Modulus", "bool": "Prop"}


def lty(ty):
    if isinstance(ty, tuple) and ty[0] == "list": return f"List {LT[ty[1]]}"
    if isinstance(ty, tuple) and ty[0] == "opt": return f"Option {LT[ty[1]]}"
    if isinstance(ty, tuple) and ty[0] == "struct": return ty[1]
    return LT[ty]


class GVar:
    def __init__(self, lean, ty, kind="val", rust=None, mut=False, ref=None, tv=None):
        self.lean, self.ty, self.kind, self.rust, self.mut, self.ref, self.tv = lean, ty, kind, rust, mut, ref, tv


class TVars:
    """integer literals / locals without a declared type: all must be forced to a 64-bit unsigned type (usize / u64) by their uses"""
    def __init__(self): self.p = {}; self.why = {}
    def new(self, why): k = len(self.p) + 1; self.p[k] = k; self.why[k] = why; return k
    def find(self, k):
        while self.p[k] != k: k = self.p[k]
        return k
    def union(self, a, b):
        if a is None or b is None: return
        a, b = self.find(a), self.find(b)
        if a == b: return
        if a == 0: self.p[b] = 0
        else: self.p[a] = b
    def unresolved(self): return [self.why[k] for k in self.p if k != 0 and self.find(k) != 0]


class Lower:
    def __init__(self, T, gen, fn, ent):
        self.T, self.gen, self.fn, self.ent = T, gen, fn, ent
        self.name = ent.get("lean", fn["name"])
        self.nv = self.nt = self.nloop = 0
        self.namemap = []; self.aux = []; self.order = []; self.types = {}
        self.tv = TVars(); self.tv.p[0] = 0
        self.generic = ent.get("generic", False)

    def fail(self, what, ln=None):
        raise self.T.Unsupported(f"{self.fn['file']}: fn {self.name}" + (f", line {ln}" if ln else "") + f": unsupported (handler mode): {what}")

    def declare(self, lean, ty):
        if lean not in self.types: self.order.append(lean)
        self.types[lean] = lty(ty)

    def newvar(self, rust, ty):
        self.nv += 1; n = f"v{self.nv}"; self.namemap.append(f"{n}={rust}"); self.declare(n, ty); return n

    def tmp(self, ty):
        self.nt += 1; n = f"t{self.nt}"; self.declare(n, ty); return n

    # ------------------------------------------------------------------ types of the signature
    def elem_ty(self, t, what):
        if t[0] == "name":
            if self.generic and t[1] in self.gen.assoc: return self.gen.assoc[t[1]]
            if t[1] in ("u64", "usize"): return "w"
            if t[1] == "MultiplyU64ModOperand": return "mulop"
        self.fail(f"{what}: type {t}")

    def param_ty(self, t, what):
        if t[0] == "name" and t[1] in ("usize", "u64"): return "w", False
        if t[0] == "ref" and t[2][0] == "arr" and t[2][2] is None: return ("list", self.elem_ty(t[2][1], what)), t[1]
        if t[0] == "option" and t[1][0] == "ref" and not t[1][1]: return ("opt", self.elem_ty(t[1][2], what)), False
        self.fail(f"{what}: parameter type {t}")

    # ------------------------------------------------------------------ ops: {"binds": [lean names], "text": [lines]}
    def emit(self, ops, binds, line): ops.append({"binds": list(binds), "text": [line]})

    def bind(self, ops, name, rhs): self.emit(ops, [name], f"let {name} ← {rhs}")

    def let(self, ops, name, rhs): self.emit(ops, [name], f"let {name} := {rhs}")

    @staticmethod
    def names_in(ops):
        s = set()
        for o in ops:
            for l in o["text"]: s |= set(ID_RE.findall(l))
        return s

    @staticmethod
    def bound_in(ops):
        s = set()
        for o in ops: s |= set(o["binds"])
        return s

    @staticmethod
    def tup(names): return names[0] if len(names) == 1 else "(" + ", ".join(names) + ")"

    # ------------------------------------------------------------------ expressions
    def lookup(self, env, name, ln=None):
        if name not in env: self.fail(f"unknown identifier `{name}`", ln)
        return env[name]

    def read_var(self, v, ops):
        """value of a variable: (atom, type, tvar)"""
        if v.kind == "val": return v.lean, v.ty, v.tv
        if v.kind == "eref":
            sl, ix = v.ref
            t = self.tmp(sl.ty[1]); self.bind(ops, t, f"idxG {sl.lean} {ix}")
            return t, sl.ty[1], (0 if sl.ty[1] == "w" else None)
        self.fail(f"use of `{v.rust}` ({v.kind}) as a value")

    def word(self, r, what, ln=None):
        if r[1] != "w": self.fail(f"{what}: operand of type {r[1]}", ln)
        return r

    def ex(self, e, env, ops, ln=None):
        """-> (atom, type, tvar)"""
        T = self.T; e = T.strip_paren(e); k = e[0]
        if k == "num":
            if e[2] not in (None, "usize", "u64"): self.fail(f"integer literal with suffix {e[2]}", ln)
            return str(e[1]), "w", (0 if e[2] else self.tv.new(f"literal {e[1]}" + (f" (line {ln})" if ln else "")))
        if k == "path":
            if len(e[1]) != 1: self.fail(f"path {'::'.join(e[1])}", ln)
            return self.read_var(self.lookup(env, e[1][0], ln), ops)
        if k == "deref":
            b = T.strip_paren(e[1])
            if b[0] == "path" and len(b[1]) == 1 and self.lookup(env, b[1][0], ln).kind == "eref": return self.read_var(env[b[1][0]], ops)
            if b[0] == "path" and len(b[1]) == 1 and env[b[1][0]].kind == "val" and env[b[1][0]].ty in ("V", "R", "S", "mulop"):
                return self.read_var(env[b[1][0]], ops)              # `*r` of a reference to a trait-typed value
            self.fail("dereference of something that is not an element reference", ln)
        if k == "ref":
            return self.ex(e[2], env, ops, ln)                         # `&x`, `&*x`: trait-typed values are passed by shared reference
        if k == "field":
            b = T.strip_paren(e[1])
            if b[0] == "path" and b[1] == ["self"] and "self" in env and env["self"].kind == "self":
                ft = self.gen.view_fields.get(e[2])
                if ft is None: self.fail(f"field self.{e[2]} is not in the table's view of the struct", ln)
                self.self_used.add(e[2])
                return f"{env['self'].lean}.{e[2]}", ft, (0 if ft == "w" else None)
            self.fail(f"field access .{e[2]}", ln)
        if k == "mcall":
            recv, m, args = T.strip_paren(e[1]), e[2], e[3]
            if m == "len" and not args:
                r = self.ex(recv, env, ops, ln)
                if not (isinstance(r[1], tuple) and r[1][0] == "list"): self.fail(".len() of something that is not a slice", ln)
                return f"{r[0]}.length", "w", 0
            if m == "value" and not args:
                r = self.ex(recv, env, ops, ln)
                if r[1] != "mod": self.fail(f".value() on {r[1]}", ln)
                return f"{r[0]}.value", "w", 0
            if self.generic and recv[0] == "field" and T.strip_paren(recv[1]) == ("path", ["self"]) and recv[2] == self.gen.arith_field:
                sig = self.gen.methods.get(m)
                if sig is None: self.fail(f"`self.{recv[2]}.{m}`: not a method of trait {self.gen.trait}", ln)
                if len(args) != len(sig[0]): self.fail(f"trait method {m}: arity", ln)
                atoms = []
                for a, want in zip(args, sig[0]):
                    r = self.ex(a, env, ops, ln)
                    if r[1] != want: self.fail(f"trait method {m}: argument of type {r[1]} for a parameter of type {want}", ln)
                    atoms.append(r[0])
                t = self.tmp(sig[1]); self.bind(ops, t, f"{self.aname}.{m} " + " ".join(atoms))
                return t, sig[1], None
            self.fail(f"method call .{m}()", ln)
        if k == "bin":
            op = e[1]
            if op in ("==", "!=", "<", ">", "<=", ">="):
                l = self.word(self.ex(e[2], env, ops, ln), op, ln); r = self.word(self.ex(e[3], env, ops, ln), op, ln)
                self.tv.union(l[2], r[2])
                sym = {"==": "=", "!=": "≠", "<": "<", ">": ">", "<=": "≤", ">=": "≥"}[op]
                return f"{l[0]} {sym} {r[0]}", "bool", None
            if op in ("+", "-", "*"):
                l = self.word(self.ex(e[2], env, ops, ln), op, ln); r = self.word(self.ex(e[3], env, ops, ln), op, ln)
                self.tv.union(l[2], r[2])
                t = self.tmp("w"); self.bind(ops, t, f"{ {'+': 'ckAdd', '-': 'ckSub', '*': 'ckMul'}[op]} {l[0]} {r[0]}")
                return t, "w", l[2]
            if op in ("<<", ">>"):
                l = self.word(self.ex(e[2], env, ops, ln), op, ln)
                rr = T.strip_paren(e[3])
                if rr[0] == "num":
                    if rr[1] >= 64: self.fail(f"shift by {rr[1]}", ln)
                    la = l[0] if " " not in l[0] else f"({l[0]})"
                    return (f"({la} >>> {rr[1]})" if op == ">>" else f"(({la} <<< {rr[1]}) % B64)"), "w", l[2]
                r = self.word(self.ex(e[3], env, ops, ln), op, ln)
                t = self.tmp("w"); self.bind(ops, t, f"{'ckShr' if op == '>>' else 'ckShl'} 64 {l[0]} {r[0]}")
                return t, "w", l[2]
            self.fail(f"operator `{op}`", ln)
        self.fail(f"expression form `{k}`", ln)

    def usize(self, e, env, ops, what, ln=None):
        r = self.word(self.ex(e, env, ops, ln), what, ln); self.tv.union(r[2], 0); return r[0]

    # ------------------------------------------------------------------ slices
    def slice_var(self, e, env, ln, need_mut=False):
        e = self.T.strip_paren(e)
        if e[0] == "ref": e = self.T.strip_paren(e[2])
        if e[0] == "path" and len(e[1]) == 1:
            v = self.lookup(env, e[1][0], ln)
            if v.kind == "val" and isinstance(v.ty, tuple) and v.ty[0] == "list":
                if need_mut and not v.mut: self.fail(f"`{e[1][0]}` is not a mutable slice", ln)
                return v
        if e[0] == "field" and not need_mut:
            r = self.ex(e, env, [], ln)
            if isinstance(r[1], tuple) and r[1][0] == "list": return GVar(r[0], r[1], rust="self." + e[2])
        self.fail("slice expression (only a slice variable / a `Vec` field of self)", ln)

    def slice_expr(self, e, env, ops, ln, need_mut=False):
        """`S` or `S[lo..hi]` -> (base GVar, lean atom of the (sub-)slice, frozen lo atom or None)"""
        T = self.T; e = T.strip_paren(e)
        if e[0] == "ref": e = T.strip_paren(e[2])
        if e[0] == "index" and T.strip_paren(e[2])[0] == "range":
            base = self.slice_var(e[1], env, ln, need_mut)
            rng = T.strip_paren(e[2])
            if rng[3]: self.fail("inclusive slice range", ln)
            lo = self.usize(rng[1], env, ops, "slice bound", ln) if rng[1] is not None else "0"
            if ID_RE.fullmatch(lo) and need_mut:          # the variable may be re-assigned before the write-back: freeze its value
                t0 = self.tmp("w"); self.let(ops, t0, lo); lo = t0
            hi = self.usize(rng[2], env, ops, "slice bound", ln) if rng[2] is not None else f"{base.lean}.length"
            t = self.tmp(base.ty); self.bind(ops, t, f"sliceG {base.lean} {lo} {hi}")
            return base, t, lo
        base = self.slice_var(e, env, ln, need_mut)
        return base, base.lean, None

    # ------------------------------------------------------------------ loops
    def make_loop(self, doc, env, count, lo, ivar_rust, body_fn, ops, ln):
        """auxiliary definition `name A captured.. : Nat -> Nat -> state.. -> R state` (recursion on the exact trip count)"""
        self.nloop += 1; lname = f"{self.name}_loop{self.nloop}"
        outer = set(self.order)
        iv = self.newvar(ivar_rust, "w")
        bops = []
        body_fn(iv, bops)
        carried = [n for n in self.order if n in outer and n in self.bound_in(bops)]
        if not carried: self.fail("loop whose body assigns nothing that outlives it", ln)
        used = self.names_in(bops) | set(ID_RE.findall(count)) | set()
        captured = [n for n in self.order if n in outer and n in self.names_in(bops) and n not in carried]
        rty = " × ".join(self.types[n] for n in carried)
        binders = "".join(f" ({n} : {self.types[n]})" for n in captured)
        hdr = self.header_binders()
        call = " ".join([lname] + self.header_args() + captured)
        state = self.tup(carried)
        lines = [f"/-- {doc}, line {ln}: trip count `{count}`; returns the variables its body assigns ({', '.join(carried)}) -/",
                 f"def {lname}{hdr}{binders} : Nat → Nat → " + " → ".join(self.types[n] for n in carried) + f" → R ({rty})",
                 f"  | 0, _, {', '.join(carried)} => pure {state}",
                 f"  | fuel + 1, {iv}, {', '.join(carried)} => do"]
        lines += self.render(bops, 4)
        lines.append(f"    {call} fuel ({iv} + 1) " + " ".join(carried))
        self.aux.append("\n".join(lines))
        self.emit(ops, carried, f"let {state} ← {call} {count} {lo} " + " ".join(carried))

    def render(self, ops, ind):
        out = []
        for o in ops: out += [" " * ind + l for l in o["text"]]
        return out

    def header_binders(self):
        return " {α ρ σ : Type} (A : Arithmetic α ρ σ)" if self.generic else ""

    def header_args(self):
        return ["A"] if self.generic else []

    # ------------------------------------------------------------------ statements
    def block(self, blk, env, ops):
        stmts, tail = blk
        stmts = list(stmts)
        if tail is not None:
            t0 = self.T.strip_paren(tail)
            if t0[0] in ("if", "iflet") or (t0[0] == "mcall"): stmts.append(("expr", tail, None))
            else: self.fail("block with a value")
        env = dict(env)
        pending = {}     # statement index after which a split borrow ends -> write-backs
        for i, s in enumerate(stmts):
            self.stmt(s, env, ops, stmts, i, pending)
            for wb in pending.pop(i, []): wb()
        if pending: self.fail("internal: pending write-back")

    def stmt(self, s, env, ops, stmts, i, pending):
        T = self.T; kind = s[0]; ln = s[-1] if isinstance(s[-1], int) else None
        if kind == "let":
            _, pat, mut, ty, init, ln = s
            if init is None: self.fail("`let` without initialiser", ln)
            if not isinstance(pat, str): return self.let_split(s, env, ops, stmts, i, pending)
            if ty is not None and not (ty[0] == "name" and ty[1] in ("usize", "u64")): self.fail(f"`let` with type {ty}", ln)
            r = self.ex(init, env, ops, ln)
            if r[1] == "bool" or isinstance(r[1], tuple): self.fail(f"`let` of a value of type {r[1]}", ln)
            tv = r[2]
            if r[1] == "w":
                if ty is not None: self.tv.union(tv, 0); tv = 0
                elif tv is None: tv = 0
            n = self.newvar(pat, r[1])
            self.let(ops, n, r[0]) if not self.retarget(ops, r[0], n) else None
            env[pat] = GVar(n, r[1], rust=pat, mut=bool(mut), tv=tv)
            return
        if kind == "assign": return self.assign(s, env, ops)
        if kind == "for": return self.for_stmt(s, env, ops)
        if kind == "expr":
            e = T.strip_paren(s[1])
            if e[0] == "iflet": return self.iflet(e, env, ops, ln)
            if e[0] == "if": return self.if_stmt(e, env, ops, ln)
            if e[0] == "mcall" and e[2] == "for_each": return self.for_each(e, env, ops, ln)
            if e[0] == "mcall": return self.call_stmt(e, env, ops, ln)
            self.fail(f"expression statement `{e[0]}`", ln)
        self.fail(f"statement `{kind}`", ln)

    def retarget(self, ops, atom, name):
        """if `atom` is the temporary bound by the last op, bind `name` there instead (keeps `let v ← A.guard x` on one line)"""
        if ops and ops[-1]["binds"] == [atom] and re.fullmatch(r"t\d+", atom) and ops[-1]["text"][0].startswith(f"let {atom} "):
            ops[-1]["binds"] = [name]; ops[-1]["text"][0] = ops[-1]["text"][0].replace(f"let {atom} ", f"let {name} ", 1)
            self.order.remove(atom); del self.types[atom]
            return True
        return False

    def let_split(self, s, env, ops, stmts, i, pending):
        """`let (l, r) = S[lo..hi].split_at_mut(mid);`: two mutable sub-slices; written back into S after the last statement of the
        block that mentions l or r (where the borrow ends); S itself must not be mentioned while they are alive"""
        T = self.T; _, pat, mut, ty, init, ln = s
        e = T.strip_paren(init)
        if not (len(pat[1]) == 2 and e[0] == "mcall" and e[2] == "split_at_mut" and len(e[3]) == 1): self.fail("tuple `let` (only `let (l, r) = S[a..b].split_at_mut(m)`)", ln)
        base, sl, lo = self.slice_expr(e[1], env, ops, ln, need_mut=True)
        if lo is None: lo = "0"
        mid = self.usize(e[3][0], env, ops, "split_at_mut", ln)
        ln_, rn_ = self.newvar(pat[1][0], base.ty), self.newvar(pat[1][1], base.ty)
        self.emit(ops, [ln_, rn_], f"let ({ln_}, {rn_}) ← splitAtG {sl} {mid}")
        env[pat[1][0]] = GVar(ln_, base.ty, rust=pat[1][0], mut=True); env[pat[1][1]] = GVar(rn_, base.ty, rust=pat[1][1], mut=True)
        last = i
        for j in range(i + 1, len(stmts)):
            if T.uses(stmts[j]) & {pat[1][0], pat[1][1]}: last = j
        for j in range(i + 1, last + 1):
            if base.rust in T.uses(stmts[j]): self.fail(f"`{base.rust}` is used while its sub-slices `{pat[1][0]}`, `{pat[1][1]}` are alive", ln)
        pending.setdefault(last, []).append(lambda: self.let(ops, base.lean, f"spliceG {base.lean} {lo} ({ln_} ++ {rn_})"))

    def assign(self, s, env, ops):
        T = self.T; _, lhs, op, rhs, ln = s
        l0 = T.strip_paren(lhs)
        if l0[0] == "deref":
            b = T.strip_paren(l0[1])
            if not (b[0] == "path" and len(b[1]) == 1 and self.lookup(env, b[1][0], ln).kind == "eref" and env[b[1][0]].mut): self.fail("assignment through something that is not a mutable element reference", ln)
            v = env[b[1][0]]; sl, ix = v.ref
            if op is None: r = self.ex(rhs, env, ops, ln)
            else:
                rv = self.ex(rhs, env, ops, ln)                       # right operand first, then the place (primitive types)
                cur = self.read_var(v, ops)
                r = self.ex(("bin", op, ("path", ["#cur"]), ("path", ["#rhs"])), dict(env, **{"#cur": GVar(cur[0], cur[1], tv=cur[2]), "#rhs": GVar(rv[0], rv[1], tv=rv[2])}), ops, ln)
            if r[1] != sl.ty[1]: self.fail(f"assignment of a {r[1]} to an element of type {sl.ty[1]}", ln)
            if r[1] == "w": self.tv.union(r[2], 0)
            self.bind(ops, sl.lean, f"setIdxG {sl.lean} {ix} {r[0]}")
            return
        if l0[0] == "path" and len(l0[1]) == 1:
            v = self.lookup(env, l0[1][0], ln)
            if v.kind != "val" or v.ty != "w" or not v.mut: self.fail(f"assignment to `{l0[1][0]}` (only mutable integer locals)", ln)
            e2 = rhs if op is None else ("bin", op, lhs, rhs)
            r = self.word(self.ex(e2, env, ops, ln), "assignment", ln)
            self.tv.union(v.tv, r[2])
            if not self.retarget_same(ops, r[0], v.lean): self.let(ops, v.lean, r[0])
            return
        self.fail("assignment target", ln)

    def retarget_same(self, ops, atom, name):
        if ops and ops[-1]["binds"] == [atom] and re.fullmatch(r"t\d+", atom) and ops[-1]["text"][0].startswith(f"let {atom} "):
            ops[-1]["binds"] = [name]; ops[-1]["text"][0] = ops[-1]["text"][0].replace(f"let {atom} ", f"let {name} ", 1)
            self.order.remove(atom); del self.types[atom]
            return True
        return False

    def iter_side(self, e, env, ops, ln):
        """`X.iter()` / `X.iter_mut()` with X a slice variable or `S[lo..hi]` -> (GVar of the list iterated, mutable?)"""
        T = self.T; e = T.strip_paren(e)
        if not (e[0] == "mcall" and e[2] in ("iter", "iter_mut") and not e[3]): self.fail("iterator chain: `.iter()` / `.iter_mut()` of a slice expected", ln)
        ismut = e[2] == "iter_mut"
        r = T.strip_paren(e[1])
        if r[0] == "index":
            if ismut: self.fail("`iter_mut()` over a sub-slice expression (bind it with `split_at_mut` first)", ln)
            base, sl, _ = self.slice_expr(r, env, ops, ln)
            return GVar(sl, base.ty, rust=f"{base.rust}[..]"), False
        return self.slice_var(r, env, ln, need_mut=ismut), ismut

    def bind_elem(self, pat, side, iv, envb, bops):
        lst, ismut = side
        if pat == "_" or (isinstance(pat, str) and pat.startswith("_")): return
        if not isinstance(pat, str): self.fail("element pattern")
        if ismut: envb[pat] = GVar(None, lst.ty[1], kind="eref", rust=pat, mut=True, ref=(lst, iv))
        else:
            n = self.newvar(pat, lst.ty[1]); self.bind(bops, n, f"idxG {lst.lean} {iv}")      # shared iterator: the element, read once
            envb[pat] = GVar(n, lst.ty[1], rust=pat, tv=(0 if lst.ty[1] == "w" else None))

    def for_stmt(self, s, env, ops):
        T = self.T; _, var, it, body, ln = s
        it0 = T.strip_paren(it)
        if it0[0] == "range":
            if it0[3] or it0[1] is None or it0[2] is None or not isinstance(var, str): self.fail("`for` range must be `lo..hi`", ln)
            lo = self.usize(it0[1], env, ops, "range bound", ln); hi = self.usize(it0[2], env, ops, "range bound", ln)
            count = hi if lo == "0" else f"({hi} - {lo})"
            def body_fn(iv, bops):
                envb = dict(env); envb[var] = GVar(iv, "w", rust=var, tv=0)
                self.block(body, envb, bops)
            return self.make_loop(f"`for {var} in lo..hi`", env, count, lo, var, body_fn, ops, ln)
        if it0[0] == "mcall" and it0[2] == "zip" and len(it0[3]) == 1:
            if not (isinstance(var, tuple) and len(var[1]) == 2): self.fail("`for` over a zip needs a pair pattern", ln)
            a = self.iter_side(it0[1], env, ops, ln); b = self.iter_side(it0[3][0], env, ops, ln)
            if a[0].lean == b[0].lean: self.fail("zip of a slice with itself", ln)
            count = f"(min {a[0].lean}.length {b[0].lean}.length)"
            def body_fn(iv, bops):
                envb = dict(env); self.bind_elem(var[1][0], a, iv, envb, bops); self.bind_elem(var[1][1], b, iv, envb, bops)
                self.block(body, envb, bops)
            return self.make_loop("`for (x, y) in a.iter..().zip(b.iter..())` (stops at the shorter side)", env, count, "0", "(index)", body_fn, ops, ln)
        if it0[0] == "mcall" and it0[2] in ("iter", "iter_mut"):
            if not isinstance(var, str): self.fail("`for` pattern", ln)
            a = self.iter_side(it0, env, ops, ln)
            def body_fn(iv, bops):
                envb = dict(env); self.bind_elem(var, a, iv, envb, bops); self.block(body, envb, bops)
            return self.make_loop("`for x in a.iter..()`", env, f"{a[0].lean}.length", "0", "(index)", body_fn, ops, ln)
        self.fail("`for` iterator", ln)

    def for_each(self, e, env, ops, ln):
        """`<iter>.for_each(|pat| body)` / `<iter>.enumerate().for_each(|(i, pat)| body)`: the closure runs once per element, in order, and may
        assign captured variables (an `FnMut` called in place = the body of a `for` loop)"""
        T = self.T
        if len(e[3]) != 1 or T.strip_paren(e[3][0])[0] != "closure": self.fail("for_each without a closure literal", ln)
        clo = T.strip_paren(e[3][0]); recv = T.strip_paren(e[1])
        if len(clo[1]) != 1 or clo[1][0][1] is not None: self.fail("for_each closure must have one untyped parameter", ln)
        pat = clo[1][0][0]; enum = False
        if recv[0] == "mcall" and recv[2] == "enumerate" and not recv[3]: enum = True; recv = T.strip_paren(recv[1])
        side = self.iter_side(recv, env, ops, ln)
        if enum:
            if not (isinstance(pat, tuple) and pat[0] == "tuplepat" and len(pat[1]) == 2 and isinstance(pat[1][0], str)): self.fail("enumerate closure parameter must be `(i, x)`", ln)
            ipat, epat = pat[1][0], pat[1][1]
        else: ipat, epat = "(index)", pat
        if not isinstance(epat, str): self.fail("for_each element pattern", ln)
        body = clo[2]
        if T.has_escape([body[0], body[1]]): self.fail("`return` / `break` inside a for_each closure", ln)
        def body_fn(iv, bops):
            envb = dict(env)
            if enum and not ipat.startswith("_"): envb[ipat] = GVar(iv, "w", rust=ipat, tv=0)
            self.bind_elem(epat, side, iv, envb, bops)
            self.block(body, envb, bops)
        self.make_loop("`<iter>.for_each(|..| ..)`" if not enum else "`<iter>.enumerate().for_each(|(i, x)| ..)`", env, f"{side[0].lean}.length", "0", ipat, body_fn, ops, ln)

    def branch(self, blk, env):
        bops = []; outer = set(self.order)
        self.block(blk, env, bops)
        return bops, [n for n in self.order if n in outer and n in self.bound_in(bops)]

    def if_stmt(self, e, env, ops, ln):
        c = self.ex(e[1], env, ops, ln)
        if c[1] != "bool": self.fail("`if` condition is not a comparison", ln)
        a, wa = self.branch(e[2], env)
        b, wb = self.branch(e[3], env) if e[3] is not None else ([], [])
        w = [n for n in self.order if n in wa or n in wb]
        if not w: self.fail("`if` statement without effect", ln)
        st = self.tup(w)
        text = [f"let {st} ← (if {c[0]} then (do"] + self.render(a, 2) + [f"  pure {st}) else (do"] + self.render(b, 2) + [f"  pure {st}))"]
        ops.append({"binds": w, "text": text})

    def iflet(self, e, env, ops, ln):
        _, pv, sc, a, b = e
        if b is not None: self.fail("`if let .. else`", ln)
        r = self.ex(sc, env, ops, ln)
        if not (isinstance(r[1], tuple) and r[1][0] == "opt"): self.fail("`if let Some(..)` on something that is not an Option", ln)
        n = self.newvar(pv, r[1][1])
        envb = dict(env); envb[pv] = GVar(n, r[1][1], rust=pv, tv=(0 if r[1][1] == "w" else None))
        bops, w = self.branch(a, envb)
        if not w: self.fail("`if let` without effect", ln)
        st = self.tup(w)
        text = [f"let {st} ← (match {r[0]} with", f"  | none => pure {st}", f"  | some {n} => do"] + self.render(bops, 4) + [f"    pure {st})"]
        ops.append({"binds": w, "text": text})

    def call_stmt(self, e, env, ops, ln):
        """`self.<handler field>.<generic fn>(args)` / `self.<sibling>(args)`: calls of functions translated earlier in this file"""
        T = self.T; recv, m, args = T.strip_paren(e[1]), e[2], e[3]
        sig = self.gen.sigs.get(m)
        if sig is None: self.fail(f"call of `{m}` which is not a translated function of this file", ln)
        pre = []
        if sig["generic"]:
            if not (recv[0] == "field" and T.strip_paren(recv[1]) == ("path", ["self"])): self.fail(f"call of generic `{m}`: receiver must be a handler field of self", ln)
            r = self.ex(recv, env, ops, ln)
            if not (isinstance(r[1], tuple) and r[1][0] == "struct"): self.fail(f"`self.{recv[2]}` is not a handler", ln)
            inst = self.gen.instances.get(r[1][1])
            if inst is None: self.fail(f"no arithmetic instance for {r[1][1]}", ln)
            pre = [f"({inst} {r[0]})"]; amap = self.gen.inst_assoc[r[1][1]]
        else:
            if recv != ("path", ["self"]) or "self" not in env: self.fail(f"call of `{m}`: receiver must be `self`", ln)
            pre = [env["self"].lean]; amap = {}
        if len(args) != len(sig["params"]): self.fail(f"call of `{m}`: arity", ln)
        atoms = []; out = None
        for a, (pty, pmut) in zip(args, sig["params"]):
            pty = tuple(amap.get(x, x) for x in pty) if isinstance(pty, tuple) else amap.get(pty, pty)
            a0 = T.strip_paren(a)
            if isinstance(pty, tuple) and pty[0] == "opt":
                if a0 == ("path", ["None"]): atoms.append("none"); continue
                if a0[0] == "call" and a0[1] == ["Some"] and len(a0[2]) == 1:
                    r = self.ex(a0[2][0], env, ops, ln)
                    if r[1] != pty[1]: self.fail(f"call of `{m}`: Some(..) of type {r[1]}", ln)
                    atoms.append(f"(some {r[0]})"); continue
                self.fail(f"call of `{m}`: Option argument must be `None` / `Some(&x)`", ln)
            if isinstance(pty, tuple) and pty[0] == "list":
                v = self.slice_var(a0, env, ln, need_mut=bool(pmut))
                if v.ty != pty: self.fail(f"call of `{m}`: slice of {v.ty[1]} for a slice of {pty[1]}", ln)
                if pmut:
                    if out is not None: self.fail(f"call of `{m}`: two `&mut` slices", ln)
                    out = v
                atoms.append(v.lean); continue
            r = self.ex(a0, env, ops, ln)
            if r[1] != pty: self.fail(f"call of `{m}`: argument of type {r[1]} for {pty}", ln)
            if r[1] == "w": self.tv.union(r[2], 0)
            atoms.append(r[0] if " " not in r[0] else f"({r[0]})")
        if out is None: self.fail(f"call of `{m}` without a `&mut` slice (no effect)", ln)
        self.bind(ops, out.lean, " ".join([sig["lean"]] + pre + atoms))

    # ------------------------------------------------------------------ function
    def translate(self):
        fn = self.fn; env = {}; binders = []; self.params = []; self.self_used = set()
        self.aname = "A"
        na = 0
        outs = []
        for (pn, pt, pmut) in fn["params"]:
            if pn == "self":
                if pt != ("selfty", "ref"): self.fail("receiver must be `&self`")
                if not self.generic:
                    n = f"a{na}"; na += 1; self.namemap.append(f"{n}=self"); self.declare(n, ("struct", self.gen.view_name))
                    env["self"] = GVar(n, ("struct", self.gen.view_name), kind="self", rust="self"); binders.append(f"({n} : {self.gen.view_name})")
                continue
            ty, m = self.param_ty(pt, f"parameter `{pn}`")
            n = f"a{na}"; na += 1; self.namemap.append(f"{n}={pn}"); self.declare(n, ty)
            env[pn] = GVar(n, ty, rust=pn, mut=bool(m), tv=(0 if ty == "w" else None))
            binders.append(f"({n} : {lty(ty)})"); self.params.append((ty, bool(m)))
            if m: outs.append(n)
        if fn["ret"] != ("tuple", []): self.fail("function with a return value")
        if len(outs) != 1: self.fail("exactly one `&mut` slice parameter expected")
        ops = []
        self.block(fn["body"], env, ops)
        bad = self.tv.unresolved()
        if bad: self.fail(f"integer type not forced to usize/u64 by its uses: {bad}")
        self.gen.sigs[fn["name"]] = {"lean": self.name, "params": self.params, "generic": self.generic}
        doc = (f"/-- `{fn['name']}`  {fn['file']}:{fn['line0']}-{fn['line1']}  sha256/64(normalised source) = {fn['hash']}\n"
               f"    names: {' '.join(self.namemap)} -/")
        lines = [doc, f"def {self.name}{self.header_binders()} " + " ".join(binders) + f" : R ({self.types[outs[0]]}) := do"]
        lines += self.render(ops, 2) + [f"  pure {outs[0]}"]
        return "\n\n".join(self.aux + ["\n".join(lines)]) + "\n"


PRELUDE = """/-- bounds-checked element read / write of a slice of any element type (`.error .oob` = index panic) -/
def idxG {τ : Type} (l : List τ) (i : Nat) : R τ := match l[i]? with | some x => .ok x | none => .error .oob
def setIdxG {τ : Type} (l : List τ) (i : Nat) (v : τ) : R (List τ) := if i < l.length then .ok (l.set i v) else .error .oob
/-- `&s[a..b]` / `&mut s[a..b]`: panics unless `a <= b <= s.len()` -/
def sliceG {τ : Type} (l : List τ) (a b : Nat) : R (List τ) := if a ≤ b ∧ b ≤ l.length then .ok ((l.drop a).take (b - a)) else .error .oob
/-- `s.split_at_mut(mid)`: panics unless `mid <= s.len()` -/
def splitAtG {τ : Type} (l : List τ) (mid : Nat) : R (List τ × List τ) := if mid ≤ l.length then .ok (l.take mid, l.drop mid) else .error .oob
/-- end of the borrow `&mut s[a..]`: the (same-length) sub-slice is written back -/
def spliceG {τ : Type} (l : List τ) (a : Nat) (s : List τ) : List τ := l.take a ++ s ++ l.drop (a + s.length)
"""


class Gen:
    def __init__(self, T, tr, spec):
        self.T, self.tr, self.spec = T, tr, spec
        self.sigs = {}; self.instances = {}; self.inst_assoc = {}
        self.view_fields = {}; self.view_name = None

    def src(self, rel): return self.T.strip_comments(open(os.path.join(self.tr.repo, rel)).read())

    def fail(self, what): raise self.T.Unsupported(f"rs2lean (handler mode): {what}")

    def trait_item(self):
        """`pub trait Arithmetic: Clone { type Value; type Root; type Scalar; fn add(&self, a: &Self::Value, ..) -> Self::Value; .. }`"""
        sp = self.spec["trait"]; rel = sp["file"]; src = self.src(rel)
        ms = list(re.finditer(r"\btrait\s+%s\b[^{]*\{" % re.escape(sp["name"]), src))
        if len(ms) != 1: self.fail(f"trait {sp['name']} found {len(ms)} times in {rel}")
        j = ms[0].end() - 1; end = self.T.brace_block(src, j, f"trait {sp['name']}"); body = src[j + 1:end - 1]
        self.trait = sp["name"]
        types = re.findall(r"\btype\s+(\w+)\s*;", body)
        if types != list(sp["types"]): self.fail(f"trait {sp['name']}: associated types {types} differ from the table's {list(sp['types'])}")
        self.assoc = dict(zip(types, sp["types"].values()))          # Value -> V, Root -> R, Scalar -> S
        self.methods = {}; fields = []
        rest = re.sub(r"\btype\s+\w+\s*;", "", body)
        for item in [x.strip() for x in rest.split(";")]:
            if not item: continue
            m = re.fullmatch(r"fn\s+(\w+)\s*\(\s*&\s*self\s*((?:,\s*\w+\s*:\s*&\s*Self\s*::\s*\w+\s*)*)\)\s*->\s*Self\s*::\s*(\w+)", item)
            if not m: self.fail(f"trait {sp['name']}: item `{item}` is not `fn m(&self, a: &Self::T, ..) -> Self::U`")
            ptys = re.findall(r":\s*&\s*Self\s*::\s*(\w+)", m.group(2))
            for t in ptys + [m.group(3)]:
                if t not in self.assoc: self.fail(f"trait {sp['name']}: unknown associated type {t}")
            self.methods[m.group(1)] = ([self.assoc[t] for t in ptys], self.assoc[m.group(3)])
            fields.append(f"  {m.group(1)} : " + " → ".join([LT[self.assoc[t]] for t in ptys] + [f"R {LT[self.assoc[m.group(3)]]}"]))
        if sorted(self.methods) != sorted(sp["methods"]): self.fail(f"trait {sp['name']}: methods {sorted(self.methods)} differ from the table's {sorted(sp['methods'])}")
        return "\n".join([f"/-- trait `{sp['name']}`  {rel}: associated types " + ", ".join(f"{k} = {LT[v]}" for k, v in self.assoc.items()) +
                          ";\n    every method may panic (`R`); a total operation `f` is used as `fun a b => pure (f a b)` -/",
                          f"structure {sp['name']} (α ρ σ : Type) where"] + fields) + "\n"

    def handler_struct(self):
        """`pub struct DWTHandler<T: Arithmetic> { arithmetic: T }`: exactly one field, of the parameter type"""
        sp = self.spec["handler"]; src = self.src(sp["file"])
        m = re.search(r"\bstruct\s+%s\s*<\s*(\w+)\s*:\s*%s\s*>\s*\{\s*(?:pub\s+)?(\w+)\s*:\s*(\w+)\s*,?\s*\}" % (re.escape(sp["name"]), re.escape(self.trait)), src)
        if not m or m.group(1) != m.group(3): self.fail(f"struct {sp['name']}<T: {self.trait}> {{ field: T }} not found in {sp['file']}")
        self.tparam, self.arith_field = m.group(1), m.group(2)

    def generic_fn(self, ent):
        sp = self.spec["handler"]; rel = sp["file"]; src = self.src(rel)
        ms = list(re.finditer(r"\bimpl\s*<\s*(\w+)\s*:\s*%s\s*>\s*%s\s*<\s*\1\s*>\s*\{" % (re.escape(self.trait), re.escape(sp["name"])), src))
        if len(ms) != 1: self.fail(f"`impl<T: {self.trait}> {sp['name']}<T>` found {len(ms)} times in {rel}")
        j = ms[0].end() - 1; end = self.T.brace_block(src, j, f"impl {sp['name']}")
        return self.parse(src, rel, ent["fn"], j, end)

    def parse(self, src, rel, name, lo, hi):
        T = self.T
        off, line = T.find_fn(src, name, rel, lo, hi)
        j = src.index("{", off); end = T.brace_block(src, j, f"fn {name} in {rel}")
        toks = T.tokenize(src[off:end], line)
        p = T.Parser(toks, name); fn = p.fn_item()
        norm = " ".join(t[1] for t in toks[:p.i])
        fn.update({"file": rel, "line0": line, "line1": toks[p.i - 1][2], "hash": hashlib.sha256(norm.encode()).hexdigest()[:16]})
        return fn

    def instance(self, sp):
        """`impl Arithmetic for ModArithLazy` (translated in an earlier file) as a value of the generated structure"""
        rel = sp["file"]; src = self.src(rel)
        lo, hi, selfty, aliases = self.T.find_impl(src, f"{self.trait} for {sp['type']}", rel)
        tymap = {"u64": "w", "MultiplyU64ModOperand": "mulop"}
        amap = {}
        for k, v in self.assoc.items():
            if aliases.get(k) not in tymap: self.fail(f"impl {self.trait} for {sp['type']}: type {k} = {aliases.get(k)}")
            amap[v] = tymap[aliases[k]]
        fields = []
        for m, (ptys, rty) in self.methods.items():
            sig = self.tr.msigs.get((sp["type"], m))
            if sig is None: self.fail(f"{sp['type']}::{m} is not a translated function")
            want = [("struct", sp["type"])] + [("mulop",) if amap[t] == "mulop" else ("w", "u64") for t in ptys]
            got = [(p[0],) + ((p[1],) if p[0] in ("struct", "w") else ()) for p in sig["params"]]
            if got != want: self.fail(f"{sp['type']}::{m}: translated parameters {got}, expected {want}")
            vs = [f"x{i}" for i in range(len(ptys))]
            call = f"{sig['ns']}.{sig['lean']} s " + " ".join(vs)
            fields.append(f"    {m} := fun {' '.join(vs)} => " + (call if sig["monadic"] else f"pure ({call})"))
        name = f"arith_{sp['type']}"
        self.instances[sp["type"]] = name; self.inst_assoc[sp["type"]] = amap
        st = self.tr.structs[sp["type"]]["lean"]
        return "\n".join([f"/-- `impl {self.trait} for {sp['type']}`  {rel}: " + ", ".join(f"{k} = {aliases[k]}" for k in self.assoc) +
                          f"; the methods are the functions of `{sp['ns']}` generated from the same impl -/",
                          f"def {name} (s : {sp['ns']}.{st}) : {self.trait} " + " ".join(LT[amap[v]] for v in self.assoc.values()) + " :=",
                          "  {" + ",\n   ".join(f.strip() for f in fields) + " }"]) + "\n"

    def view(self, sp):
        """the fields of `struct NTTTables` the wrappers read, checked against the struct item; `NTTHandler = DWTHandler<ModArithLazy>` is
        its single field (the arithmetic instance)"""
        rel = sp["file"]; src = self.src(rel)
        ms = list(re.finditer(r"\bstruct\s+%s\s*\{" % re.escape(sp["name"]), src))
        if len(ms) != 1: self.fail(f"struct {sp['name']} found {len(ms)} times in {rel}")
        j = ms[0].end() - 1; end = self.T.brace_block(src, j, f"struct {sp['name']}"); body = src[j + 1:end - 1]
        decl = {m.group(1): "".join(m.group(2).split()) for m in re.finditer(r"(?:pub\s+)?(\w+)\s*:\s*([^,]+?)\s*(?:,|$)", body)}
        tymap = {"usize": "w", "u64": "w", "Modulus": "mod", "MultiplyU64ModOperand": "mulop", "Vec<MultiplyU64ModOperand>": ("list", "mulop"), "Vec<u64>": ("list", "w")}
        lines = []
        for f, want in sp["fields"].items():
            if decl.get(f) != want: self.fail(f"struct {sp['name']}: field {f} has type {decl.get(f)}, the table says {want}")
            if want in tymap: ty = tymap[want]
            else:
                al = re.search(r"\btype\s+%s\s*=\s*%s\s*<\s*(\w+)\s*>\s*;" % (re.escape(want), re.escape(self.spec["handler"]["name"])), src)
                if not al or al.group(1) not in self.instances: self.fail(f"struct {sp['name']}: field {f} of type {want}")
                ty = ("struct", al.group(1))
            self.view_fields[f] = ty
            lines.append(f"  {f} : " + (f"{self.inst_ns[ty[1]]}.{self.tr.structs[ty[1]]['lean']}" if isinstance(ty, tuple) and ty[0] == "struct" else lty(ty)))
        self.view_name = sp["name"] + "View"
        return "\n".join([f"/-- the fields of `struct {sp['name']}` ({rel}) the translated methods read (types checked against the struct item);",
                          f"    a `{self.spec['handler']['name']}<X>` is its single field `{self.arith_field} : X` -/",
                          f"structure {self.view_name} where"] + lines) + "\n"

    def run(self):
        T = self.T; sp = self.spec
        rels = sorted({sp["trait"]["file"], sp["handler"]["file"]} | {e["file"] for e in sp["table"]})
        out = ["/- GENERATED by tools/rs2lean.py + tools/rs2lean_dwt.py (via tools/extract.py) from " + ", ".join(rels) + " -- do not edit.",
               "   Handler mode (TRANSLATOR.md, phase 4e): a trait of arithmetic operations = a structure of functions into `R`; functions generic",
               "   over it take the structure as first parameter; slices are lists, every loop / iterator chain is an auxiliary definition by",
               "   recursion on its exact trip count that returns the variables its body assigns; usize/u64 `+ - *` are ckAdd/ckSub/ckMul,",
               "   `<<`/`>>` by a variable amount ckShl/ckShr; locals are named by position (v1, v2, ...; parameters a0, a1, ...). -/"]
        out += [f"import {m}" for m in sp["imports"]] + ["", "set_option linter.unusedVariables false", "", f"namespace HC.{sp['ns']}", "open HC", "open HC.GenW", "", PRELUDE]
        out.append(self.trait_item()); self.handler_struct()
        self.inst_ns = {}
        for ent in sp["table"]:
            try:
                if "instance" in ent:
                    self.inst_ns[ent["instance"]["type"]] = ent["instance"]["ns"]; out.append(self.instance(ent["instance"])); continue
                if "view" in ent: out.append(self.view(ent["view"])); continue
                if ent.get("generic"): fn = self.generic_fn(ent)
                else:
                    src = self.src(ent["file"]); lo, hi, _, _ = T.find_impl(src, ent["impl"], ent["file"])
                    fn = self.parse(src, ent["file"], ent["fn"], lo, hi)
                lw = Lower(T, self, fn, ent); text = lw.translate()
                out.append(text)
            except T.Unsupported as ex:
                raise T.Unsupported(f"rs2lean: {ent.get('file', '?')}: {ent.get('fn', 'item')}: {ex}")
        out += [f"end HC.{sp['ns']}", ""]
        return "\n".join(out)


def generate(T, tr, spec): return Gen(T, tr, spec).run()
