#!/usr/bin/env python3
"""API census: which public functions of the source files a property is anchored in are exercised by the harness (called in-process) or
translated into Lean by rs2lean — and which are NOT.  A function that no generator touches cannot be covered by the correspondence, whatever
the theorems say about the model; round 7 of the seeded changes found five such holes.  Used by tools/runner.py (evidence field `api_census`)
and standalone:  tools/apicensus.py [Cnn ...]"""
import json, os, re, sys, glob
ROOT = os.path.dirname(os.path.dirname(os.path.abspath(__file__)))
REPO = os.environ.get("VERIF_REPO", "/repo")
SKIP = {"new", "default", "fmt", "clone", "from", "drop", "eq", "hash", "deref", "as_ref", "as_mut", "next", "len", "is_empty"}

def pub_fns(path):
    try: src = open(path, errors="replace").read()
    except OSError: return []
    cut = src.find("#[cfg(test)]")
    if cut >= 0: src = src[:cut]
    src = re.sub(r"//[^\n]*", "", src)
    return sorted({m.group(1) for m in re.finditer(r"\bpub\s+fn\s+([A-Za-z_][A-Za-z0-9_]*)", src)} - SKIP)

def corpus():
    text = ""
    for f in glob.glob(os.path.join(ROOT, "harness", "src", "*.rs")): text += open(f, errors="replace").read()
    tr = ""
    for f in ("rs2lean.py", "rs2lean_dwt.py", "extract.py"):
        p = os.path.join(ROOT, "tools", f)
        if os.path.exists(p): tr += open(p, errors="replace").read()
    for f in glob.glob(os.path.join(ROOT, "tools", "rs2lean_*.py")): tr += open(f, errors="replace").read()
    return text, tr

def census(pid):
    props = {json.loads(l)["id"]: json.loads(l) for l in open(os.path.join(ROOT, "properties.jsonl"))}
    files = props[pid]["anchors"]["files"]
    harness, trans = corpus()
    out = {"files": {}, "public_functions": 0, "called_by_harness": 0, "translated": 0, "not_exercised": []}
    for rel in files:
        fns = pub_fns(os.path.join(REPO, rel))
        called = [f for f in fns if re.search(r"[.:]%s\s*\(" % re.escape(f), harness) or re.search(r"\b%s\b" % re.escape(f), harness) and len(f) > 6]
        tr = [f for f in fns if re.search(r"[\"']fn[\"']\s*:\s*[\"']%s[\"']" % re.escape(f), trans) or re.search(r"\(\s*[\"']%s[\"']" % re.escape(f), trans)]
        miss = [f for f in fns if f not in called and f not in tr]
        out["files"][rel] = {"public": len(fns), "harness": len(called), "translated": len(tr), "neither": miss}
        out["public_functions"] += len(fns); out["called_by_harness"] += len(called); out["translated"] += len(tr)
        out["not_exercised"] += ["%s::%s" % (os.path.basename(rel), f) for f in miss]
    return out

if __name__ == "__main__":
    ids = sys.argv[1:] or ["C%02d" % i for i in range(1, 21)]
    for pid in ids:
        c = census(pid)
        print("%s: %d public functions in the anchored files, %d called by the harness, %d translated; not exercised (%d): %s" % (
            pid, c["public_functions"], c["called_by_harness"], c["translated"], len(c["not_exercised"]), ", ".join(c["not_exercised"]) or "-"))
