"""Per-property configuration of ./check (what to build, what to run, how to count)."""

COMMON_TRUSTED = [
    "Lean 4.33 kernel (theorems); Lean compiler/runtime (executing model and spec in the driver hcdrv)",
    "axioms: at most propext, Classical.choice, Quot.sound (audited by #print axioms on every run); no sorry/admit/native_decide/bv_decide/own axioms",
    "tools/extract.py (Rust source -> Heathcliff/Gen/*.lean translator) and the Rust harness + tools/runner.py (comparison, canonicalisation)",
    "the theorems are about the hand-written model; the code is tied to it by Gen re-extraction and by differential correspondence on generated inputs",
]

def shards(n, args=()):
    return lambda tier, seed: [{"seed": seed * 1000 + i, "args": list(args)} for i in range(n if tier == "thorough" else 1)]

P = {}

P["C08"] = {
    "lean_modules": ["Heathcliff.Props.C08"],
    "level": "proof",
    "runs": lambda tier, seed: ([{"seed": seed}] if tier == "quick" else
                                [{"seed": seed * 1000 + i} for i in range(4)] + [{"seed": seed, "args": ["exhaustive"]}]),
    "search": lambda tier, seed: [{"seed": seed * 7919 + i} for i in range(3)],
    "rule": "Boundary-heavy generator: moduli of every bit length 2..61 (prime or not, 2^k, 2^k-1), operands 0,1,q-1,q,2q-1,2^63,2^64-1, multiples of q next to 2^64 / 2^128, limb vectors of 1..8 words with all-ones / all-zero / mixed patterns; thorough adds all moduli < 2^7 with all operand pairs.",
    "exhaustive": {"thorough": True},
    "explanation": "exhaustive=true (thorough) refers to the sub-universe `all moduli below 2^7 x all operand pairs` for the binary word-level primitives; the rest is sampled.",
    "assumptions": ["u128 arithmetic of rustc (multiply_u64_u64, divide_u128_u64_inplace) is exact", "divide_u192_u64_inplace is modelled inside Modulus.mk? by its quotient/remainder and tied by correspondence (modulus_new cases)"],
}

P["C09"] = {
    "lean_modules": ["Heathcliff.Props.C09"],
    "level": "proof",
    "runs": lambda tier, seed: [{"seed": seed}],
    "search": lambda tier, seed: [{"seed": seed * 7919 + i} for i in range(2)],
    "rule": "Degrees 2..2^8 (thorough 2^11), NTT-friendly primes of the smallest admissible size up to 61 bits (from get_primes), tables built twice independently; all N unit vectors for small N (the map is linear), all-(q-1), lazy-range maxima (<4q forward, <2q inverse), random vectors; convolution via ntt/dyadic/intt against the explicit negacyclic double sum; composite moduli = 1 mod 2N and non-NTT-friendly moduli must be refused.",
    "assumptions": ["the random search for *some* primitive root (rand::thread_rng) is an input of the model (any primitive root gives the same minimal root when q is prime: theorem root_deterministic)"],
}

P["C10"] = {
    "lean_modules": ["Heathcliff.Props.C10"],
    "level": "proof",
    "runs": lambda tier, seed: ([{"seed": seed}] if tier == "quick" else
                                [{"seed": seed * 1000 + i} for i in range(3)] + [{"seed": seed, "args": ["exhaustive"]}]),
    "search": lambda tier, seed: [{"seed": seed * 7919 + i} for i in range(2)],
    "rule": "Bases of 1..8 pairwise-coprime moduli of 2..60 bits (ascending/descending/mixed, not necessarily prime) for CRT and base conversion; NTT-friendly chains of 1..6 primes of mixed sizes with plain moduli 2^k / batching prime / 3 / odd for the BEHZ toolbox (whose auxiliary 61-bit primes come from the library itself); coefficients 0, 1, Q-1, Q/2, Q/2±1, multiples of q_last ± half, random; thorough adds every integer below the product for nine small bases.",
    "exhaustive": {"thorough": True},
    "explanation": "exhaustive=true (thorough) refers to `every integer below the product` for the listed small bases (decompose/compose); the rest is sampled.",
    "assumptions": ["exact_convey_array / decrypt_mod_t round a sum of doubles: model and spec use exact rational rounding and make no claim when the fraction is within (k+1)*2^-46 of 1/2 (f64 cannot decide); such inputs are counted as outside the documented domain",
                    "the auxiliary primes of RNSTool::new come from get_primes; the driver recomputes them with a deterministic Miller-Rabin"],
}

P["C01"] = {
    "lean_modules": ["Heathcliff.Props.C01", "Heathcliff.Proofs.C01EW", "Heathcliff.Proofs.C01LW", "Heathcliff.Proofs.C01VW", "Heathcliff.Proofs.C01XW", "Heathcliff.Proofs.C01YW"],
    "level": "proof",
    "runs": lambda tier, seed: [{"seed": seed}] if tier == "quick" else [{"seed": seed * 1000 + i} for i in range(4)],
    "search": lambda tier, seed: [{"seed": seed * 7919 + i} for i in range(2)],
    "rule": "Contexts built by hand (security level None): N = 2..32 (thorough 2..128), 1..4 (6) NTT-friendly primes of 18..60 bits ascending/descending/mixed, plain modulus batching prime / 2^k / 3 / larger than a coefficient prime, special-prime flag set/unset/default, three schemes; plaintexts 0, all t-1, floor/ceil t/2 alternating, 1, short random, single top coefficient, full random; modes public-key / secret-key / secret-key+seed (expanded); encryptions of zero at every level; CKKS at every level with random complex slots. The ciphertext, secret key and plaintext are dumped; the driver recomputes the exact phase with big integers. `enc_op` lines (N <= 16): the sampling tape is armed around pk / sk / seed-compressed / encrypt_zero_at encryptions (three schemes, every level, fresh and used destinations, plain moduli incl. larger than a coefficient prime); public key, secret key, drawn polynomials, plaintext and stored seed (+ BLAKE3 blocks) are dumped and the model of encryption (Model/Encrypt.lean) recomputes the ciphertext bit for bit.",
    "assumptions": ["the secret key is dumped in coefficient form through the library's own inverse NTT (checked by C09)", "drawn randomness (u, e, a) is whatever the library drew; the exact-phase oracle needs only the key and the ciphertext"],
}

P["C02"] = {
    "lean_modules": ["Heathcliff.Props.C02"],
    "level": "proof",
    "runs": lambda tier, seed: [{"seed": seed}] if tier == "quick" else [{"seed": seed * 1000 + i} for i in range(6)],
    "search": lambda tier, seed: [{"seed": seed * 7919 + i} for i in range(2)],
    "rule": "Random well-typed programs (negate, add, sub, multiply, square, add/sub/multiply_plain incl. monomials and NTT-form plaintexts, representation changes, relinearize, mod-switch) over a pool of ciphertexts, operand sizes 2..6 and mixed size pairs (products without relinearisation), N = 4..32 (thorough 64), 2..4 primes of 40..60 bits, t batching / 2^k / small odd, BFV and BGV (correction factors != 1 arise through mod-switch and products). Every result is dumped with the value of the shadow program in Z_t[X]/(X^N+1); the driver decrypts it with exact integers.",
    "assumptions": ["the shadow program (plaintext arithmetic mod (X^N+1, t)) is evaluated by the harness in Rust (30 lines, independent of the library)",
                    "the spec claims exact decryption when the conservative predicted budget is >= 4 bits or the exact budget is >= 1 bit; the prediction rule (harness/src/c02.rs pred_mul etc.) only decides where a claim is made"],
}

P["C05"] = {
    "lean_modules": ["Heathcliff.Props.C05"],
    "level": "proof",
    "runs": lambda tier, seed: [{"seed": seed}] if tier == "quick" else [{"seed": seed * 1000 + i} for i in range(3)],
    "search": lambda tier, seed: [{"seed": seed * 7919}],
    "rule": "Chains of 1..6 data levels (plus key level), N = 4..32, three schemes, ciphertext sizes 2..4 (products without relinearisation), every (source level, target level) pair incl. upward (must be refused), every API form of mod_switch_to / rescale_to / to-next, each call on its own thread under a 20 s deadline (a call that does not return is a violation). BFV/BGV results are decrypted exactly and compared with the original message (`prog` lines); CKKS results are compared with the source ciphertext: exact phase (drop: equal mod the smaller modulus; rescale: |phase'·D - phase| <= D(1+N+..+N^(size-1)+1)), scale bit pattern = IEEE division chain, and the Lean model recomputes the destination ciphertext bit for bit.",
    "assumptions": ["Lean's Float division is IEEE-754 binary64 division (same as Rust f64) — used only to predict the scale bit pattern"],
}

P["C07"] = {
    "lean_modules": ["Heathcliff.Props.C07"],
    "level": "proof",
    "runs": lambda tier, seed: [{"seed": seed}] if tier == "quick" else [{"seed": seed * 1000 + i} for i in range(6)],
    "search": lambda tier, seed: [{"seed": seed * 7919}],
    "rule": "Ciphertexts reached by random BFV/BGV operation programs (same generator as C02) that are NOT stopped when the budget is exhausted, so zero-budget and low-budget ciphertexts are included; fresh public-key / secret-key encryptions; negations; k-fold sums (k = 2..9) of same-level same-factor ciphertexts. The library's invariant_noise_budget is compared with the Lean model of dot product + compose + infinity norm and with the definition evaluated on the exact big-integer phase.",
    "assumptions": ["negation / add_many laws are checked with the library's own budgets, which the `budget` lines of the same run tie to the exact definition"],
}

P["C13"] = {
    "lean_modules": ["Heathcliff.Props.C13"],
    "level": "proof",
    "runs": lambda tier, seed: ([{"seed": seed, "args": ["all"]}] if tier == "quick" else
                                [{"seed": seed, "args": ["gen"]}, {"seed": seed, "args": ["ladder"]}, {"seed": seed, "args": ["chain"]}]
                                + [{"seed": seed * 1000 + i, "args": ["random"]} for i in range(4)]),
    "search": lambda tier, seed: [{"seed": seed * 7919 + i, "args": ["random"]} for i in range(2)],
    "rule": "Exhaustive small universe built through the real builder: schemes {None,BFV,CKKS,BGV} x N in {0,1,2,3,4,8,16} x every list of 0..2 moduli "
            "(3 quick / 4 thorough from a reduced pool) over the pool {0, 2, non-NTT primes 3/13, NTT-friendly primes 17/41/73/97/113, composites = 1 mod 8 or 16 "
            "(9, 25, 65), a 61-bit value} incl. duplicates and every order x 13 plain moduli (0, 1, powers of two, batching primes, values sharing a factor with a "
            "modulus, values >= a coefficient prime / >= the product, 61 bits); chain universe: 22 moduli lists (valid, invalid at some prefix, descending or not) x "
            "plain moduli that invalidate a lower level x both flags x security None/128; security universe: total bit counts limit-1, limit, limit+1 of every "
            "table entry for N = 512..4096 (thorough ..65536) x 4 requested levels, bfv_default sets; random large sets (N up to 2^11 / 2^13, 1..6 / 1..10 primes from "
            "CoeffModulus::create, mutated: composite = 1 mod 2N, duplicate, non-NTT prime, reordered). Every level of every chain is compared (qualifiers, all constants, "
            "links, chain_index, id = hash(pre-image), id agreement of two independently built contexts). Generators: get_primes for all factors <= 18 (40) x sizes 0..9 x "
            "counts 0..3 plus large sizes, CoeffModulus::create, PlainModulus::batching, max_bit_count / bfv_default tables, is_prime for all values < 3000 (20000), "
            "Carmichael numbers, strong pseudoprimes, random odd values.",
    "exhaustive": {"quick": True, "thorough": True},
    "explanation": "exhaustive=true refers to the stated small-parameter universe (moduli lists up to length 2 over the full pool, length 3/4 over the reduced pool, "
                   "every plain modulus of the pool, every listed N, all four schemes; flags x security for the chain lists); the large parameter sets are sampled.",
    "assumptions": ["Modulus::is_prime (Miller-Rabin, 40 random rounds) is a function of the value: the driver uses deterministic Miller-Rabin with 12 bases (exact below 3.3e24 by a published result, trusted); theorem is_prime_no_false_negative covers the other direction for every witness sequence",
                    "NTT tables exist iff the modulus is prime and = 1 mod 2N: the random search for a primitive root (100 attempts, success probability 1/2 each for a prime) is assumed to succeed",
                    "SHA-256 (crate sha2) is collision free on the pre-images of one chain; ids are compared through their pre-images (checked against the crate's own hash function in the harness)",
                    "ContextData::upper_half_increment has no public accessor and is never read by the crate beyond its first word (coeff_modulus_mod_plain_modulus): modelled, not compared"],
}

P["C16"] = {
    "lean_modules": ["Heathcliff.Props.C16"],
    "level": "proof",
    "runs": lambda tier, seed: ([{"seed": seed}] if tier == "quick" else [{"seed": seed * 1000 + i} for i in range(3)]),
    "search": lambda tier, seed: [{"seed": seed * 7919 + i} for i in range(2)],
    "rule": ("BlakeRNG: 64-byte seeds (all-zero, all-ones, one-bit, random) x operation sequences: fill_bytes chunkings that straddle the 4096-byte refill "
             "with unaligned sizes (4096-a, then 0..64-byte chunks), buffer multiples and their neighbours with empty reads at the boundary, next_u32/next_u64 "
             "right at the buffer end (alignment skip + refill), interleaved unaligned fill_bytes/next_u32/next_u64, >1024 words in a row, walks over several "
             "refills; each sequence ends with a 16-byte probe that observes the final state. The model gets the BLAKE3 blocks as data (recomputed in the harness "
             "with the blake3 crate from seed ++ counter_le64, independently of BlakeRNG). Samplers ternary / centered_binomial / uniform for 1..6 moduli "
             "(2..2^61-1 including moduli not above the error bound 21, powers of two, moduli with frequent rejections), degrees 1..1100, generator started at aligned and unaligned positions and across the refill; "
             "hamming_weight on all 256 bytes. Histories of key generations / (a)symmetric encryptions / public keys / relinearization keys on real BFV/CKKS/BGV "
             "contexts with 1..6 coefficient primes under the entropy override (hook), every operation compared with the model of where generators are obtained "
             "(stored seed, mask, noise polynomials, number of fresh generators, state of a caller-supplied generator afterwards). Verdict lines (!OK/!FAIL, harness "
             "oracle): chunked = single = bytewise = blake3 recomputation; per history pairwise distinct factory seeds / stored seeds / masks / secrets and form of every "
             "recorded sample, also with real OS entropy; c1 of seeded objects = expansion of the stored seed."),
    "assumptions": [
        "BLAKE3 (crate blake3) is a parameter of the model: the block function xof(seed, counter); the driver runs the model on the real blocks. Theorems about samples assume its outputs are bytes (ByteXof).",
        "PARTIAL (outside the model, checked empirically by the harness, labelled as tests `empirical-test`): the stream does not repeat within the explored length (16-byte windows over 4 MiB quick / 64 MiB thorough), streams of seeds differing in one bit differ, OS entropy (ChaCha20Rng::from_entropy) never repeats; theorem stored_seeds_fresh takes the corresponding injectivity as a hypothesis, draws_fresh takes injectivity of the entropy source. The distribution of the error sample is a theorem (cbd_distribution: exactly 64*C(42,v+21) of the 2^48 byte draws give v; variance 21/2) GIVEN uniform stream bytes; that the bytes are uniform, and the distributions of ternary / uniform samples (which depend on rand's rejection sampling over a uniform stream), are checked empirically only (chi-square tests).",
        "rand 0.8.5 `Uniform`: a parameter with the contract `sample in [lo, hi]`; the instance that follows UniformInt::sample (widening multiply, rejection zone) is proved to meet the contract and is what the driver runs (bit-exact agreement with the crate is established by correspondence only). Its rejection loop is modelled with fuel 4096.",
        "little-endian host (next_u32/next_u64 read the buffer through a raw pointer; a misaligned buffer address would be UB: the struct is #[repr(align(8))] and the observed field layout puts the buffer at a multiple of 8); `x & !m` is modelled as floor(x/(m+1))*(m+1) (theorem alignment_as_coded)",
        "error samples: after the repair of the small-modulus underflow (|e| is reduced mod q_j before encoding) theorem error_rns_consistent holds for every modulus q_j >= 2 and the encoding never refuses for q_j >= 1 (error_encoding_total); moduli 2..22 are ordinary generator cases (sampler level and CKKS contexts N=2 q=5, N=2 q=13, N=4 q=17)",
        "the history checks use the verif hooks rng_hooks (entropy override, sample tape): add-only, feature-gated code in /repo (hook.patch)",
    ],
}

P["C11"] = {
    "lean_modules": ["Heathcliff.Props.C11"],
    "level": "proof",
    "runs": lambda tier, seed: [{"seed": seed}],
    "search": lambda tier, seed: [{"seed": seed * 7919}],
    "rule": "Batching-compatible (N, t): N = 2..128 (thorough 1024), t batching primes of 4..60 bits; all N unit vectors for small N (the maps are linear), all-(t-1), zero, short (zero-padded), ramp and random vectors; decode of arbitrary (also short) plaintext polynomials against evaluation at psi^(±3^i); sums / negacyclic products of encodings decode slot-wise; every rotation step and the row swap through GaloisTool::apply on the encoded polynomial; coefficient encoding = reduction mod t.",
    "assumptions": [],
}
P["C04"] = {
    "lean_modules": ["Heathcliff.Props.C04"],
    "level": "proof",
    "runs": lambda tier, seed: [{"seed": seed}] if tier == "quick" else [{"seed": seed * 1000 + i} for i in range(3)],
    "search": lambda tier, seed: [{"seed": seed * 7919}],
    "rule": "Unit level: GaloisTool::apply / generate_table_ntt / apply_ntt for all odd g (small N) or sampled g, get_elt_from_step for all steps incl. out-of-range, get_elts_all. Ciphertext level (BFV, BGV, CKKS; N = 4..16 quick, ..64 thorough; two levels): apply_galois with its own key for all odd g, rotate_rows for every step with only the default power-of-two keys (NAF composed) and with a direct key, rotate_columns, rotate_vector for every step, complex_conjugate, switching to another secret key; results decrypted with exact integers (prog lines), decoded slots compared with the rotated input.",
    "assumptions": ["CKKS slot comparison uses the library's own decoder with tolerance 1e-3 (labelled test); the integer-level check (galois_ckks lines) is exact"],
}

P["C06"] = {
    "lean_modules": ["Heathcliff.Props.C06"],
    "level": "proof",
    "runs": lambda tier, seed: [{"seed": seed}] if tier == "quick" else [{"seed": seed * 1000 + i} for i in range(3)],
    "search": lambda tier, seed: [{"seed": seed * 7919}],
    "rule": "Three schemes, N = 4..16, 3..4 primes: (a) every result of ~20 operations (fresh pk/sk, negate, add, sub incl. mixed sizes 3x2 and 2x3, multiply, square, relinearize, mod-switch, rescale, plain operations, rotations, representation changes) is checked with is_valid_for AND with the Lean model of the validity predicate on the dumped object, and must be accepted by a following operation; (b) in-place / destination (pre-filled with an unrelated object) / returning forms of 13-16 operation families run on identical operands: results bytewise equal incl. metadata, operands untouched; (c) single-field corruptions (residue = q, last residue > q, foreign parms id, key-level parms id, scale 0 / != 1, correction factor 0 / = t / > t / != 1, truncated buffer, plaintext coefficient = t), level mismatch, wrong representation, unexpanded seed: 12 operations each must refuse.",
    "assumptions": ["any refusal (panic of any kind or Err) counts; only a silent success on a corrupted operand is a violation"],
}

def _c17_cov(res):
    import re
    st = tr = sch = scen = 0
    for k in res.notes:
        m = re.search(r"schedules=(\d+) states=(\d+) transitions=(\d+)", k)
        if m: sch += int(m.group(1)); st += int(m.group(2)); tr += int(m.group(3)); scen += 1
    traces = res.fns.get("skcache", 0) + res.fns.get("galcache", 0)
    bad = sum(1 for f in res.model_fail + res.spec_fail if f["case"].split(" ")[0] in ("skcache", "galcache"))
    return {"states": st, "transitions": tr, "traces_validated_against_impl": traces - bad,
            "exhaustively_explored_scenarios": scen, "maximal_schedules_in_them": sch,
            "state_space_note": "states / transitions = distinct (observed cache, per-thread position) pairs and (state, resumed thread) edges seen by the "
                                "harness while enumerating ALL maximal schedules of a scenario on the real code, summed over the scenarios; each scenario's "
                                "numbers are compared with the model's own exhaustive exploration (skspace / galspace lines)."}

P["C17"] = {
    "lean_modules": ["Heathcliff.Props.C17"],
    "level": "proof",
    "runs": lambda tier, seed: ([{"seed": seed}, {"seed": seed, "args": ["freerun"]}] if tier == "quick" else
                                [{"seed": seed, "args": [p]} for p in ("sk2", "sk3", "sk4", "gal2", "gal3", "freerun")]),
    "search": lambda tier, seed: [{"seed": seed * 7919 + 1, "args": ["freerun"]}, {"seed": seed * 7919 + 1, "args": ["sk2"]}, {"seed": seed * 7919 + 2, "args": ["gal2"]}],
    "rule": "Real threads under a token-passing scheduler (hook H4 yield points, never while a lock is held). Quick: ALL interleavings of 2 threads for "
            "every ordered pair of requested powers 1..4 (decrypting ciphertexts of sizes 2..5 obtained by multiplying without relinearization; BFV and "
            "CKKS Decryptor; KeyGenerator relinearization keys of count 1..3), fresh and pre-grown caches; ALL interleavings of 2 concurrent rotations for "
            "every pair of Galois elements (N=8, CKKS, NTT form), with a prefilled table, and of 2 concurrent Galois-key generations; 3 and 4 threads "
            "sampled. Thorough: 3 threads exhaustively (sorted triples of powers; thread ids are symmetric), 4 threads sampled, N=16 for the tables. "
            "One case = one schedule; its output is the observed trace (thread, phase, cache length / set of generated tables after every step) and "
            "whether every thread returned byte for byte the sequential result.",
    "exhaustive": {"quick": True, "thorough": True},
    "explanation": "exhaustive=true refers to the sub-universe `all maximal schedules of the yield points of 2 threads (thorough: 3 threads) for all "
                   "combinations of requested powers <= 4 / all pairs of Galois elements at the stated N`; 4-thread runs are sampled. The theorems "
                   "themselves quantify over every schedule, any number of threads and any requests.",
    "assumptions": ["each lock region is atomic and the code between two regions touches thread-local data only (std::sync::RwLock, the Rust memory model "
                    "and the borrow checker are trusted; lock poisoning is not modelled)",
                    "yield points are placed at every point between two lock regions of the modelled functions and nowhere while a lock is held "
                    "(hook H4, checked by the watchdog: a yield under a lock would stall the run)",
                    "the only interior-mutable fields of the crate are the modelled ones (Gen/Sync.lean, re-extracted every run)",
                    "relinearization / Galois key generation is randomized: `sequential result` there means keys that relinearize / rotate a ciphertext "
                    "to one with the same decryption"],
    "extra_coverage": _c17_cov,
}

P["C15"] = {
    "lean_modules": ["Heathcliff.Props.C15"],
    "level": "proof",
    "runs": lambda tier, seed: [{"seed": seed}] if tier == "quick" else [{"seed": seed * 1000 + i} for i in range(3)],
    "search": lambda tier, seed: [{"seed": seed * 7919 + i} for i in range(1)],
    "rule": "Every serializable type (scalars, Vec, Modulus, SchemeType, ParmsID, EncryptionParameters, Plaintext/SecretKey, Ciphertext/PublicKey in compact, full and selected-terms format, seeded and expanded, Relin/Galois/KSwitch keys with missing entries, Cipher/Plain 1d/2d/3d incl. empty, rns_plain, PolynomialSerializer) over hand-built contexts (SecurityLevel::None, N=2..16, primes straddling every byte boundary). Writers: every constant per-call limit 1..8, random limit sequences, failure at the first / last / a random / no call. Readers: every truncation offset for encodings up to 160 bytes (thorough: 600 bytes, 14 parameter families, 3 seeds), stratified (first 48, last 12, 40 random) above. A case is one (object bytes, fault sequence) or (object bytes, offset) line; the Lean model predicts the exact Ok/Err result and the bytes on the sink.",
    "assumptions": ["std::io::Write::write_all is the documented loop (modelled by writeAllFuel); ErrorKind::Interrupted retries are not modelled (the injected fault is ErrorKind::Other)",
                    "read_exact on an in-memory slice returns UnexpectedEof iff fewer bytes remain than requested",
                    "streams are those defined by a per-call acceptance-limit sequence (cycled) and one optional failing call, as the property quantifies"],
    "extra_coverage": lambda res: {"fault_sequences": sum(v for k, v in res.fns.items() if k == "c15w"), "interrupt_sequences": sum(v for k, v in res.fns.items() if k == "c15wi"), "truncation_offsets": sum(v for k, v in res.fns.items() if k == "c15r")},
}

P["C14"] = {
    "lean_modules": ["Heathcliff.Props.C14"],
    "level": "proof",
    "runs": lambda tier, seed: [{"seed": seed}],
    "search": lambda tier, seed: [{"seed": seed * 7919 + i} for i in range(1)],
    "rule": "Every object type x ciphertext sizes 2,3,one of 4/7/16 (thorough and every third family: 2..16) x every level of the modulus chain x NTT / coefficient representation x seeded / expanded x key sets with missing entries and empty rows x empty and ragged containers x 8 (thorough 14) parameter families with primes next to every byte boundary (5..61 bits) x term subsets (empty, all, last, random, reversed). Model-compared cases: the Lean decoder applied to the implementation's bytes (+0..3 trailing bytes) must print the implementation's restored object, consumed = announced = written, and re-encode to the same bytes. Verdict lines (harness oracle): field-wise equality with the original / seed-expanded / term-masked object, reader in a context rebuilt from the serialized parameters, concatenated streams, relinearization with restored seeded keys = expanded keys.",
    "assumptions": ["seed expansion (blake3 XOF + rejection sampling) is an input of the model: the expanded polynomial is taken from the implementation (its determinism is C16)",
                    "the NTT of the selected-terms format is the C09 model (tables rebuilt from the modulus)"],
}

P["C03"] = {
    "lean_modules": ["Heathcliff.Props.C03"],
    "level": "proof",
    "runs": lambda tier, seed: [{"seed": seed}] if tier == "quick" else [{"seed": seed * 1000 + i} for i in range(4)],
    "search": lambda tier, seed: [{"seed": seed * 7919}],
    "rule": "CKKS programs (negate, add, sub, multiply, square, multiply/add/sub_plain, relinearize, rescale) over a pool of ciphertexts, N = 4..16 (thorough 32), chains of 2..6 primes of 30..59 bits, scales 2^20..2^28 times plaintext scales 2^10..2^20, complex slot vectors incl. purely imaginary and negative values, sizes 2..4. Every step dumps operands and result: the driver recomputes the result ciphertext bit for bit with the Lean model (add/sub/negate/multiply/plain ops/rescale) and checks the exact relation between the big-integer phases (sum / difference / negacyclic product exactly mod Q; relinearize within the key-switch bound; rescale within the rounding bound) and the IEEE scale bit pattern; decoded slots are compared with the complex shadow program; level mismatch, scale mismatch and scale overflow must be refused (the overflow rule is compared with the model at the four boundary exponents).",
    "assumptions": ["Lean Float * and / are IEEE binary64 (same as Rust f64)", "the decoded-slot comparison uses the library decoder with tolerance max|v|/512 + 1/512 (a labelled test); the exact statement is the integer-level phase relation"],
}

P["C18"] = {
    "lean_modules": ["Heathcliff.Props.C18"],
    "level": "proof",
    "runs": lambda tier, seed: [{"seed": seed}] if tier == "quick" else [{"seed": seed * 1000 + i} for i in range(8)],
    "search": lambda tier, seed: [{"seed": seed * 7919 + i} for i in range(2)],
    "rule": ("Whole-protocol worlds on hand-built contexts (security None; N = 8..32; 2..4 coefficient primes of 45..60 bits, the last one "
             "special; t batching prime / 2^k / small odd) with 2..4 parties (thorough 2..6), BFV / BGV / CKKS, every random choice of the library replayed from the "
             "entropy override: collective public key, secret-key revelation, two-round relinearisation key, key switch to fresh keys, collective decryption, "
             "public-key switch to an outside receiver, ciphertext->shares and shares->ciphertext (batching plain moduli; BFV: both, BGV: the first - the second "
             "refuses BGV), boundary plaintexts (0, all t-1, top-coefficient monomial, floor/ceil t/2 alternating, constant, random). Delivery: EVERY global order "
             "of the n(n-1) messages of every round for n <= 3 (2 resp. 720 orders; quick: all of them for the first world of each scheme, every 11th for the "
             "second), 30 (thorough 150) random global orders for n >= 4; each order re-runs the whole world and all API-visible outputs of all parties are "
             "compared with the identity order; one dropped message per round (the receiver must refuse, everybody else finish). Case lines: mp_finish (own share, "
             "messages in arrival order, result of finish: Lean model in that order vs. order-free integer sum; one line per distinct receiver/order), mp_share "
             "(every round function on the party's secret, the common-tape polynomial and the noise recorded by the sample tape: Lean model with the library's "
             "RNS/NTT arithmetic vs. the same formula over exact schoolbook arithmetic in Z_q[X]/(X^N+1)), mp_decode (summed phase -> plaintext: model of "
             "decrypt_polynomial vs. exact-integer decoding), prog (ciphertexts with known plaintext - encryptions under the collective key, relinearised products "
             "under the collective relinearisation key, key-switched, re-encrypted, shares->ciphertext results, and the collective decryption itself - decrypted "
             "with exact integers under the summed / target key), dec (CKKS: exact phase under the summed key); verdict lines: agreement of all parties, order "
             "independence, refusals, share sums, CKKS values (labelled empirical-test)."),
    "assumptions": [
        "the summed secret key is obtained through the library's own secret-key revelation protocol and cross-checked against the sum of Participant::secret_key() of all parties; it is dumped in coefficient form through the library's inverse NTT (checked by C09)",
        "the ring-level theorems (Props/C18) are about the round functions instantiated with a commutative ring; the RNS/NTT instance the code runs is tied to them by the mp_share lines (model = code bit for bit; = exact schoolbook ring arithmetic) and by C09's theorem that the NTT is a ring isomorphism",
        "smallness of the summed noise is used only through the conservative predicted budget that decides where exact decryption is claimed (noise_sum_bound gives n*B coefficientwise); smudging-noise security is out of scope",
        "shares_to_cipher / cipher_to_shares are aggregator protocols: only party 0's result is claimed (theorem s2c_other_party_phase states what another party would compute)",
        "CKKS plaintext values are compared through the library's decoder with a tolerance (labelled empirical-test); the integer-level CKKS checks (dec, mp_decode, mp_share, mp_finish) are exact",
        "the entropy override and the sample tape are the existing verif hooks (rng_hooks); no new hook is needed for C18",
    ],
}

P["C12"] = {
    "lean_modules": ["Heathcliff.Props.C12"],
    "level": "proof",
    "runs": lambda tier, seed: ([{"seed": seed}] if tier == "quick" else
                                [{"seed": seed, "args": ["tables"]}] + [{"seed": seed * 1000 + i, "args": ["chain%d" % i]} for i in range(19)]),
    "search": lambda tier, seed: [{"seed": seed * 7919 + i} for i in range(2)],
    "rule": ("Real CKKS contexts built by hand (SecurityLevel::None): N = 2..64 (thorough ..1024), chains of 1,2,3,4,5,7,11,19 (thorough 1..19) primes of 20..60 bits "
             "(all-20, all-60, all-30, alternating 60/20, random sizes), every data level (quick: first, middle, last + one random when more than 4). Per level: the vector entry point with 10 "
             "patterns (zero, unit vectors real/imaginary/negative/complex, all positive, all negative, alternating signs, purely imaginary, mixed complex, constant, short incl. empty, "
             "+-2^60 in both parts; magnitudes 0, 1, 2^e, 2^e-1, x.5, fractions, random mantissas up to 2^60) x scales 2^0, around the 64-bit and the 128-bit path boundary, next to "
             "the modulus, the largest admissible 2^(B-2), non-powers of two, random; single complex / single real / coefficient lists (lengths 1..N, the DESIGN witness [3,-2]) at each of "
             "the 7 scale placements; ~45 integers per level (0, +-1, i64::MIN/MAX, +-q_j, +-q_j-1, +-2^35, +-2^(B-4..B-2), random of every bit length); refusals (scale 0, negative, "
             "2^(B-1), 2^B, 2^1023, inf; too many values; magnitudes 2^(B-4)..2^(B+1) and ratio*Q for ratio in {0.25,0.49,0.51,0.6,0.75,0.99,1.5}); decode of arbitrary plaintexts "
             "(uniform residues, signed small / 62-bit coefficients, (Q-1)/2 and (Q+1)/2, non-NTT plaintexts, bad scales). Every successful encoding is also decoded (decode and "
             "decode_polynomial) on the same line. Tables: matrix_reps_index_map, ComplexRoots::get_root for every index in [0, 2m+3) (m <= 512, sampled + boundaries above, masking "
             "included) and root_powers / inv_root_powers, for N = 2..512 (thorough 8192). The path-selecting bit count and the f64 coefficients right before rounding are observed through "
             "the cfg(verif) tap: the model's three integer->RNS paths + model NTT must reproduce the plaintext bit for bit."),
    "explanation": ("level=partial: the integer / exact-arithmetic clauses are theorems (33 audited); the double-precision clause (error of the f64 FFT, log2, rounding of v*scale, 1/scale) is not "
                    "expressible in Lean (Float is opaque) and is checked by a tolerance oracle only: exact inverse canonical embedding in 320-bit fixed point (roots of unity by half-angle integer "
                    "square roots from i; no libm), every RNS component of the plaintext (after the model inverse NTT, HC.intt of C09) must hold the residues of ONE integer vector c' with "
                    "|c' - c| <= tol; tol(vec/cplx) = 3/2 + (10k+3)*2^-53*scale*(2*sum_i(|re v_i|+|im v_i|))/N [per butterfly layer (1+u)(1+sqrt5 u)(1+6u) <= 1+10u: complex add, complex mul, "
                    "stored root (libm cos/sin <= 1ulp, angle <= 4u); k layers + scaling by scale/N], tol(real/poly) = 3/2 + 2^-52*|v*scale|, tol(int) = 0; decode: per coefficient "
                    "(L+4)*2^-53*S_j/scale (S_j = sum of the absolute limb terms of the fold as the code forms them) plus (10k+2)*2^-53*sum_j|r_j| for the forward transform; decode(encode(v)) vs v "
                    "within N*tol_enc/scale + tol_dec. Acceptance zones: scaled magnitude M > Q/2 (beyond tol) must be refused, M < 2^(B-3) must be accepted, in between either refusal or a correct "
                    "encoding; exact magnitudes >= 2^1000 (outside the f64 range) and the empty coefficient list are outside the documented domain (ANY)."),
    "assumptions": [
        "PARTIAL: no theorem is about f64; theorems are over Int / ℚ / any commutative *-ring with a primitive 2N-th root (instantiated over ℂ with Complex.exp); the floating-point FFT is tied to them only by the tolerance oracle",
        "the path-selecting bit count (`max_coeff.log2().ceil()`, `value.abs().log2() as usize + 2`) and the pre-rounding coefficients are INPUTS of the model, observed through the add-only tap verif::ckks_hooks (hook.patch); scale refusals are modelled with exact comparisons (generators use scales with at most 11 mantissa bits, where libm log2 cannot flip the comparison)",
        "libm values (cos/sin of the octant table) are never compared exactly: get_root's index/mirror/sign logic is compared bit for bit GIVEN the stored octant table, and every table entry must be within 2^-50 of the exact root",
        "model = repaired behaviour of the two defects of DESIGN.md §7 (fix.patch: i64 negatives, coefficient-list path selection); a third defect found by this check (array / coefficient-list entry points accept scaled magnitudes in (Q/2, 2^(B-1)]: missing sign bit in the bit-count test) is recorded in known_findings.json (status known, cases labelled `.gap` by the harness) and repaired by fix_signbit.patch",
    ],
}

P["C19"] = {
    "lean_modules": ["Heathcliff.Props.C19"],
    "level": "proof",
    "runs": lambda tier, seed: [{"seed": seed}] if tier == "quick" else [{"seed": seed * 1000}, {"seed": seed * 1000 + 1, "args": ["small"]}, {"seed": seed * 1000 + 2, "args": ["small"]}],
    "search": lambda tier, seed: [{"seed": seed * 7919}],
    "rule": "Unit level: negacyclic_shift for every shift 0..2N-1 (N <= 64; sampled with boundaries above) on unit / all-(q-1) / sparse / random vectors, GaloisTool::apply for the elements 2^i+1 the trace and the merge use and random odd ones. Ciphertext level, BFV (batching-prime and power-of-two plain modulus), BGV, CKKS, N = 4..64 (thorough ..1024, sampled above 64), two data primes + special prime, first level and one level down: extract_lwe + assemble_lwe for every index 0..N-1 in both input representations plus indices N, N+1, 2N, 2N+1 and a size-3 ciphertext (refusals); divide_by_poly_modulus_degree_inplace with and without multiplier; field_trace_inplace for every parameter 0..log2 N+1 in the working representation and refusal of the other one; pack_lwe_ciphertexts for every count 1..N over inputs extracted at varied indices from sources in alternating representation, plus counts 0 and N+1 (refusals). Source and result ciphertexts, LWE inputs and the secret key are dumped; the driver recomputes exact phases with big integers.",
    "assumptions": ["the key-switching core is not modelled bit-exactly: its effect on the phase is additive noise; BFV/BGV results are decoded exactly, CKKS results are compared with the phase-level program within a key-switch noise bound that is an oracle parameter (same estimate as C04)",
                    "BFV/BGV claims are made when the predicted remaining budget is >= 4 bits (all generated parameter sets satisfy this)"],
}

def _c20_runs(tier, seed):
    parts = [["mm", "8"], ["mm", "16"], ["mm", "32"], ["bolt"], ["conv", "1"], ["conv", "2"], ["conv", "3"], ["conv", "4"], ["rnsp"], ["ckks"]]
    runs = [{"seed": seed, "args": a} for a in parts]
    if tier == "quick":
        runs += [{"seed": seed, "args": ["big"]}]
    else:
        runs += [{"seed": seed * 1000 + i, "args": ["big", n]} for i in range(2) for n in ("8", "16", "32", "64", "128", "256", "4096")]
    return runs

P["C20"] = {
    "lean_modules": ["Heathcliff.Props.C20"],
    "level": "proof",
    "runs": _c20_runs,
    "search": lambda tier, seed: [{"seed": seed * 7919, "args": ["big"]}, {"seed": seed * 7919 + 1, "args": ["conv", "1"]}],
    "rule": ("Exhaustive over all matrix shapes (m,r,n) in [1,4]^3 (thorough [1,6]^3) at N = 8, 16, 32 x three objectives x LWE packing on/off x both operand "
             "roles (matmul / matmul_reverse) x selected-terms transport on/off, operands random / all t-1 / all zero / a single non-zero entry / ramp, with and "
             "without output bias (encode_outputs); random larger shapes up to several times the slot count at N = 8..128 (thorough ..256) and N = 4096; the three BOLT "
             "slot-packing helpers on the same small shapes and on random larger ones (verdict lines only); convolutions: batch 1..2 (3), channels in/out 1..3, images "
             "1..6 (8) squared-range x kernels 1..3 at N = 32 / 64 plus images that must be split (40x4, 4x40, 33x3, 65x1, 16x16 k5, more channels than fit); the RNS-plaintext "
             "wrapper with 1..3 (4) plain moduli at N = 8..32 (64): split / merge of reduced, unreduced (k-word) and extreme values, eight evaluator operations in slot and "
             "coefficient mode. Every helper runs end to end on real ciphertexts against an exact u128 reference (verdict lines); the block search, every encoded plaintext "
             "polynomial, the decode map (on arbitrary plaintext polynomials incl. ones with zero top coefficients) and the whole pipeline re-run at the plaintext level by "
             "the Lean model are compared with the code and with gather-form specifications / the matrix product / the valid cross-correlation / arithmetic modulo the product "
             "of the plain moduli."),
    "exhaustive": {"quick": True, "thorough": True},
    "explanation": "exhaustive=true refers to the stated small-shape universes (all (m,r,n) up to 4 resp. 6 at N = 8,16,32 x objectives x packing; the listed convolution shapes); "
                   "operand values and the larger shapes are sampled.",
    "assumptions": [
        "the ciphertext-level operations used by the helpers (encrypt, multiply_plain, add, rotations, key switching, field trace, decrypt) are the subjects of C01/C02/C04/C19; here their "
        "composition is checked end to end on real ciphertexts and modelled at the plaintext level (negacyclic product modulo t by the explicit double sum)",
        "pack_outputs is modelled by its plaintext semantics (coefficients q*ib+ib-1 of ciphertext c move to q*ib + c mod ib of packed polynomial c / ib); the field trace itself belongs to C19",
        "the LWE-packing block search computes floor(log2(floor(N^0.33))) and 2^ceil(log2(input_dims)) in f64; the model uses the exact integer definitions (agreement checked by correspondence on every shape run)",
        "cost arithmetic of the block searches is exact in the model (usize overflow needs dimensions beyond 2^20; theorem block_search_sound carries that bound)",
        "BOLT variants: the three helpers are MODELLED (Model/Matmul.lean: encode maps, rotation / spread schedules on slot vectors, decode maps) and compared with the code bit for bit on small degrees "
        "(bolt_*_encx/encw/enco/run lines); proved about the model: the end-to-end statements BoltCpStatement, BoltCcCrStatement, BoltCcDcStatement (encode -> rotation / sum / spread schedule -> "
        "decode = x.w in any commutative ring, for every helper the model's constructors accept with N a power of two below 2^64; bolt_cc_dc needs r > 0: the constructor accepts r = 0 but multiply "
        "refuses, in the model and in the code - line bolt_ccdc_r0); model = code is the sampled correspondence",
        "CKKS variants of the helpers share the index maps (the code is textually the same up to the encoder call); only the BFV paths are executed here",
    ],
}
