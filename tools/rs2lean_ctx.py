"""Gen/ContextFns.lean (worker T, round 7): the pre-computed CONSTANTS of `HeContext::validate` (src/context.rs) and `RNSBase::decompose`
(src/util/rns.rs).

"fragment mode": `validate` as a whole is outside the accepted subset (if-let, Result, NTT tables, ...), but the statement RANGES that compute
the constants are inside it once the accessor chains / fields of the opaque `ContextData` are read as pseudo-variables (skeleton tables, the
same mechanism as `mod_switch_to_inplace`).  A fragment is a CONTIGUOUS run of top-level statements of a block of `validate`, located by
FIELD / FUNCTION names only (never by names of locals):

  total   : from the statement `c.total_coeff_modulus = ...;` up to and including `c.total_coeff_modulus_bit_count = ...;`
            (top level of `validate`);
  bfv     : from the statement `c.qualifiers.using_fast_plain_lift = true;` to the END of the match arm `SchemeType::BFV | SchemeType::BGV => { .. }`;
  ckks    : from the statement `c.plain_upper_half_threshold = ...;` to the END of the match arm `SchemeType::CKKS => { .. }`.

Every statement of the range is translated (nothing is skipped: a statement inserted into the range is translated too or fails loudly); a
`return` inside a range is refused.  The locals the range uses but does not define (`coeff_modulus`, `plain_modulus`, `coeff_modulus_size`,
`coeff_modulus_base`) are found as the immutable top-level `let NAME = EXPR;` statements of `validate` that precede the range and are
(transitively) mentioned by it; they are put in front of the fragment, so that the skeleton table sees `coeff_modulus_size` as
`c.parms.coeff_modulus().len()` whatever the local is called.

Two iterator expressions with closures are rewritten textually (regex with back-references, so that the closure parameters / locals may have
any name) before parsing - TRUSTED readings:
  `XS.iter().map(|m| m.value()).collect::<Vec<_>>()`                                        = `values_of(XS)`  (the list of the values)
  `for x in XS { .. }` (XS a plain variable: iteration over a slice in index order)             = `for it in 0..XS.len() { let x = &XS[it]; .. }`
  `V.iter().zip(B.base().iter()).map(|(x, y)| MultiplyU64ModOperand::new(*x, y)).collect::<Vec<_>>()` = `mulop_new_each(V, B)`
                                                                                               (element-wise `MultiplyU64ModOperand::new`)
"""
import re, hashlib

CTX = "src/context.rs"


def split_stmts(text, what, Unsupported):
    """top-level statements of a block body (text without the outer braces): list of (start, end) offsets.  A statement ends at a `;` at depth 0, or
    at a `}` at depth 0 that closes a block statement (`if`/`for`/`while`/`loop`/`match`/`unsafe` not followed by `else`)."""
    out = []; d = 0; i = 0; n = len(text); start = None
    while i < n:
        ch = text[i]
        if start is None and not ch.isspace(): start = i
        if ch in "([{": d += 1
        elif ch in ")]}":
            d -= 1
            if d < 0: raise Unsupported(f"{what}: unbalanced brackets")
            if ch == "}" and d == 0 and start is not None:
                head = text[start:i].lstrip()
                if re.match(r"(if|for|while|loop|match|unsafe)\b", head):
                    rest = text[i + 1:].lstrip()
                    if not re.match(r"else\b", rest) and not rest.startswith(";") and not rest.startswith("."):
                        out.append((start, i + 1)); start = None
        elif ch == ";" and d == 0 and start is not None:
            out.append((start, i + 1)); start = None
        i += 1
    # (a trailing expression - the value of the block - is not a statement and never part of a range)
    return out


RX_VALUES = re.compile(r"\b(\w+)\s*\.\s*iter\s*\(\s*\)\s*\.\s*map\s*\(\s*\|\s*(\w+)\s*\|\s*\2\s*\.\s*value\s*\(\s*\)\s*\)\s*\.\s*collect\s*::\s*<\s*Vec\s*<\s*_\s*>\s*>\s*\(\s*\)")
RX_MULOPS = re.compile(r"\b(\w+)\s*\.\s*iter\s*\(\s*\)\s*\.\s*zip\s*\(\s*(\w+)\s*\.\s*base\s*\(\s*\)\s*\.\s*iter\s*\(\s*\)\s*\)\s*\.\s*map\s*\(\s*\|\s*\(\s*(\w+)\s*,\s*(\w+)\s*\)\s*\|\s*"
                       r"MultiplyU64ModOperand\s*::\s*new\s*\(\s*\*\s*\3\s*,\s*\4\s*\)\s*\)\s*\.\s*collect\s*::\s*<\s*Vec\s*<\s*_\s*>\s*>\s*\(\s*\)")


RX_FOR = re.compile(r"\bfor\s+(\w+)\s+in\s+(\w+)\s*\{")


def rewrite_iters(text):
    ctr = [0]
    def forsub(m):
        ctr[0] += 1; i = f"it{ctr[0]}_"
        return f"for {i} in 0..{m.group(2)}.len() {{ let {m.group(1)} = &{m.group(2)}[{i}];"
    text = RX_FOR.sub(forsub, text)
    text = RX_VALUES.sub(lambda m: f"values_of({m.group(1)})", text)
    text = RX_MULOPS.sub(lambda m: f"mulop_new_each({m.group(1)}, {m.group(2)})", text)
    return text


def desugar_let_if(m, stmt, ty, what):
    """`let NAME = if C { ..; a } else { ..; b };`  =  `let mut NAME: ty = 0; if C { ..; NAME = a; } else { ..; NAME = b; }` (both branches assign, so the
    initial value is never read).  A statement-`if` merges the variables its branches write (a value-`if` cannot: see `if_value` in rs2lean.py)."""
    U = m.Unsupported
    mm = re.match(r"\s*let\s+([a-z_]\w*)\s*=\s*if\b", stmt)
    if not mm: raise U(f"{what}: not a `let NAME = if ..` statement")
    name = mm.group(1)
    j = stmt.index("{", mm.end()); cond = stmt[mm.end():j]
    e1 = m.brace_block(stmt, j, what)
    rest = stmt[e1:]
    m2 = re.match(r"\s*else\s*\{", rest)
    if not m2: raise U(f"{what}: `let {name} = if` without a plain `else {{ .. }}`")
    j2 = e1 + m2.end() - 1; e2 = m.brace_block(stmt, j2, what)
    if stmt[e2:].strip() != ";": raise U(f"{what}: text after the `else` block of `let {name} = if`")
    def blk(text):
        st = split_stmts(text, what, U)
        cut = st[-1][1] if st else 0
        tail = text[cut:].strip()
        if not tail and st and not text[st[-1][0]:st[-1][1]].rstrip().endswith(";"):      # a trailing `if .. {..} else {..}` without `;` is the block's value
            cut = st[-1][0]; tail = text[cut:].strip()
        if not tail: raise U(f"{what}: branch of `let {name} = if` without a value")
        return "{ " + text[:cut] + f" {name} = {tail}; }}"
    return f"let mut {name}: {ty} = 0; if {cond} {blk(stmt[j + 1:e1 - 1])} else {blk(stmt[j2 + 1:e2 - 1])}"


def idents(text): return set(re.findall(r"[A-Za-z_]\w*", text))


def fragment(m, tr, body, line, fname, spec):
    """text of the pseudo-function for one fragment; body = comment-stripped text of `fn validate` from its `{`"""
    U = m.Unsupported
    what = f"fragment {spec['name']} of {fname}"
    inner0 = 1; blk = body[1:len(body) - 1]
    if spec.get("whole"):          # the whole body of a function whose SIGNATURE is outside the parser's subset (generic types): parameters from the table
        text = f"fn {spec['name']}({spec['params']}) {{\n" + blk + "\n}"
        return rewrite_iters(text), line
    if spec.get("arm"):
        ms = list(re.finditer(spec["arm"], body))
        if len(ms) != 1: raise U(f"{what}: match arm `{spec['arm']}` found {len(ms)} times")
        j = ms[0].end() - 1; end = m.brace_block(body, j, what)
        inner0 = j + 1; blk = body[j + 1:end - 1]
    st = split_stmts(blk, what, U)
    def find(rx):
        hits = [k for k, (a, b) in enumerate(st) if re.match(rx, " ".join(blk[a:b].split()))]
        if len(hits) != 1: raise U(f"{what}: statement `{rx}` found {len(hits)} times")
        return hits[0]
    def find_contains(rx, last):
        hits = [k for k, (a, b) in enumerate(st) if re.search(rx, blk[a:b])]
        if not hits: raise U(f"{what}: no statement contains `{rx}`")
        return hits[-1] if last else hits[0]
    if spec.get("contains"):       # the range from the FIRST to the LAST top-level statement that mentions a function name
        k0, k1 = find_contains(spec["contains"], False), find_contains(spec["contains"], True)
        if spec.get("first_only"): k1 = k0
    else:
        k0 = find(spec["start"])
        k1 = find(spec["end"]) if spec.get("end") else len(st) - 1
    if k1 < k0: raise U(f"{what}: end statement before start statement")
    frag = blk[st[k0][0]:st[k1][1]]
    if spec.get("let_if"): frag = desugar_let_if(m, frag, spec["let_if"], what)
    if re.search(r"\breturn\b", frag): raise U(f"{what}: `return` inside the range")
    ln = line + body.count("\n", 0, inner0 + st[k0][0])
    # immutable top-level lets of `validate` in front of the range (only those the range mentions, transitively)
    top = body[1:len(body) - 1]
    cut = inner0 - 1 + st[k0][0]
    pre = top[:cut]
    lets = []
    d = 0; s0 = None
    # top-level statements of the prefix: the prefix ends inside an unfinished statement (`match .. {`) when the range sits in a match arm; cut it there
    tops = []
    i = 0; start = None; depth = 0
    while i < len(pre):
        ch = pre[i]
        if start is None and not ch.isspace(): start = i
        if ch in "([{": depth += 1
        elif ch in ")]}":
            depth -= 1
            if ch == "}" and depth == 0 and start is not None and re.match(r"(if|for|while|loop|match|unsafe)\b", pre[start:i].lstrip()):
                rest = pre[i + 1:].lstrip()
                if not re.match(r"else\b", rest) and not rest.startswith(";") and not rest.startswith("."):
                    tops.append(pre[start:i + 1]); start = None
        elif ch == ";" and depth == 0 and start is not None:
            tops.append(pre[start:i + 1]); start = None
        i += 1
    for s in tops:
        mm = re.match(r"let\s+(?:mut\s+)?([a-z_]\w*)\s*=\s*(.*);\s*$" if spec.get("mut_lets") else r"let\s+([a-z_]\w*)\s*=\s*(.*);\s*$", " ".join(s.split()), re.S)
        if mm: lets.append((mm.group(1), s))
    need = idents(frag); chosen = []
    changed = True
    while changed:
        changed = False
        for nm, s in lets:
            if nm in need and s not in chosen:
                chosen.append(s); need |= idents(s); changed = True
    chosen = [s for _, s in lets if s in chosen]
    text = f"fn {spec['name']}({spec.get('params', 'c: ContextData')}) {{\n" + "\n".join(chosen) + "\n" + frag + "\n}"
    text = rewrite_iters(text)
    return text, ln


def generate(m, tr, spec):
    U = m.Unsupported
    tr.cur_ns = spec["ns"]
    src = m.strip_comments(open(m.os.path.join(tr.repo, CTX)).read())
    def body_of(fname, impl=None):
        lo, hi = 0, None
        if impl is not None:          # the `impl <T> { .. }` block (of possibly several) that contains the function
            hits = []
            for mb in re.finditer(r"\bimpl\s+%s\s*\{" % re.escape(impl), src):
                j0 = mb.end() - 1; e0 = m.brace_block(src, j0, f"impl {impl}")
                if re.search(r"\bfn\s+%s\s*\(" % re.escape(fname), src[j0:e0]): hits.append((j0, e0))
            if len(hits) != 1: raise m.Unsupported(f"fn {fname} found in {len(hits)} `impl {impl}` blocks of {CTX}")
            lo, hi = hits[0]
        off, line = m.find_fn(src, fname, CTX, lo, hi)
        j = src.index("{", off); end = m.brace_block(src, j, f"fn {fname}")
        return src[j:end], line + src.count("\n", off, j)
    out = ["/- GENERATED by tools/rs2lean.py + tools/rs2lean_ctx.py (via tools/extract.py) from src/util/rns.rs (`RNSBase::decompose`) and src/context.rs",
           "   (`fn validate`: the statement ranges that compute the per-level constants, see TRANSLATOR notes of worker T) -- do not edit. -/"]
    out += [f"import {x}" for x in spec["imports"]] + ["", "set_option linter.unusedVariables false", "", f"namespace HC.{spec['ns']}", "open HC"]
    out += [f"open {o}" for o in spec.get("opens", [])] + ["", spec.get("prelude", "")]
    for ent in spec["table"]:
        try:
            fn = m.parse_fn(tr.repo, ent["file"], ent["fn"], ent.get("impl"))
            out.append(m.FnTranslate(tr, fn, ent).translate())
        except U as ex: raise U(f"rs2lean: {ent['file']}: fn {ent['fn']}: {ex}")
    saved = {k: tr.sigs.get(k) for k in MODEL_SIGS}
    tr.sigs.update(MODEL_SIGS)            # callable only from the fragments below
    try: out += fragments(m, tr, spec, body_of)
    finally:
        for k, v in saved.items():
            if v is None: tr.sigs.pop(k, None)
            else: tr.sigs[k] = v
    out += [f"end HC.{spec['ns']}", ""]
    return "\n".join(out)


def fragments(m, tr, spec, body_of):
    U = m.Unsupported; out = []
    for fs in spec["fragments"]:
        try:
            if "table" in fs:          # an ordinary table entry placed between fragments (a function a later fragment calls)
                ent = fs["table"]
                out.append(m.FnTranslate(tr, m.parse_fn(tr.repo, ent["file"], ent["fn"], ent.get("impl")), ent).translate()); continue
            body, line = body_of(fs.get("fn", "validate"), fs.get("impl"))
            text, ln = fragment(m, tr, body, line, fs.get("fn", "validate"), fs)
            toks = m.tokenize(text, ln)
            pf = m.Parser(toks, fs["name"]).fn_item()
            norm = " ".join(t[1] for t in toks)
            pf.update({"file": CTX, "line0": ln, "line1": ln + text.count("\n"), "hash": hashlib.sha256(norm.encode()).hexdigest()[:16], "norm": norm,
                       "selfty": None, "aliases": {}, "impl": None})
            out.append(m.FnTranslate(tr, pf, dict(fs["opts"], lean=fs["name"])).translate())
        except U as ex: raise U(f"rs2lean: {CTX}: fragment {fs.get('name') or fs['table']['fn']} of fn {fs.get('fn', 'validate')}: {ex}")
    return out


# ------------------------------------------------------------------------------------------------------------------------------------
# tables
UR = "src/util/rns.rs"
CM = "c.parms.coeff_modulus()"
PM = "c.parms.plain_modulus()"
BASE = "util::RNSBase::new(%s).unwrap()" % CM

SK_DECOMPOSE = {"sig": "fn decompose(base: &[Modulus], value: &mut [u64])",
                "exprs": {"self.base.len()": "base.len()", "&self.base[$i]": "&base[$i]"}}

# model functions the fragments call (hand models of Model/Word.lean, wrapped in the prelude below with the calling convention of the
# translator: `&mut` results first, in parameter order)
MODEL_SIGS = {
    "multiply_many_u64": {"lean": "multiply_many_u64", "params": [("list",), ("mlist",)], "ret": "unit", "monadic": True, "ret_lean": "List Nat", "ns": "GenX"},
    "get_significant_bit_count_uint": {"lean": "get_significant_bit_count_uint", "params": [("list",)], "ret": "usize", "monadic": True, "ret_lean": "Nat", "ns": "GenX"},
    "right_shift_uint_inplace": {"lean": "right_shift_uint_inplace", "params": [("mlist",), ("w", "usize"), ("w", "usize")], "ret": "unit", "monadic": True, "ret_lean": "List Nat", "ns": "GenX"},
    "divide_uint": {"lean": "divide_uint", "params": [("list",), ("list",), ("mlist",), ("mlist",)], "ret": "unit", "monadic": True, "ret_lean": "List Nat × List Nat", "ns": "GenX"},
}

PRELUDE = """/-- bounds-checked read of an element of a `&[Modulus]` input -/
def idxT {α : Type} (l : List α) (i : Nat) : R α := match l[i]? with | some x => .ok x | none => .error .oob
/-! multi-word helpers of src/util/basic.rs that are NOT translated: calls go to the hand models of Model/Word.lean (tied to the code by the C08
    correspondence run, specified by `C08.multiplyManyU64_spec`, `C08.divideUint_spec`), in the calling convention of the translator -/
/-- `util::multiply_many_u64(operands, result)` -/
def multiply_many_u64 (ops res : List Nat) : R (List Nat) := multiplyManyU64 ops res.length
/-- `util::get_significant_bit_count_uint(value)` -/
def get_significant_bit_count_uint (v : List Nat) : R Nat := bitCountUint v
/-- `util::divide_uint(numerator, denominator, quotient, remainder)`: `set_uint(numerator, remainder.len(), remainder); divide_uint_inplace(remainder, denominator, quotient)`;
    the hand model `divideUint num den n` is the reading for operands of ONE common length `n` (what `validate` passes); other shapes are not given a meaning -/
def divide_uint (num den quot rem : List Nat) : R (List Nat × List Nat) :=
  if num.length = quot.length ∧ den.length = quot.length ∧ rem.length = quot.length then
    divideUint num den quot.length >>= fun rq => pure (rq.2, rq.1)
  else .error .other
/-- `util::right_shift_uint_inplace(operand, shift_amount, u64_count)` -/
def right_shift_uint_inplace (a : List Nat) (s cnt : Nat) : R (List Nat) := rightShiftUint a s cnt
"""

SK_TOTAL = {
    "sig": "fn validate_total(q: &[u64], total: &mut Vec<u64>) -> usize", "prologue": "let mut bits: usize = 0;", "epilogue": "bits",
    "handles": [CM],
    "exprs": {CM + ".len()": "q.len()", "values_of(%s)" % CM: "q", "c.total_coeff_modulus": "total", "c.total_coeff_modulus_bit_count": "bits"},
    "effects": {"util::multiply_many_u64($v.as_slice(), &c.total_coeff_modulus)": "multiply_many_u64(&$v, total);"},
}

SK_BFV = {
    "sig": "fn validate_bfv_consts(q: &[Modulus], t: u64, total: &[u64], cdp: &mut Vec<u64>, uhi: &mut Vec<u64>, puhi: &mut Vec<u64>) -> (u64, u64, u64)",
    "prologue": "let mut fast: u64 = 0; let mut q_mod_t: u64 = 0; let mut puht: u64 = 0;", "epilogue": "(fast, q_mod_t, puht)",
    "handles": [CM, PM, "util::RNSBase::new(%s)" % CM, BASE, "&%s[it1_]" % CM],
    "exprs": {CM + ".len()": "q.len()", PM + ".value()": "t", "c.qualifiers.using_fast_plain_lift": "fast != 0", "c.upper_half_increment": "uhi",
              "c.coeff_modulus_mod_plain_modulus": "q_mod_t", "c.plain_upper_half_threshold": "puht", "c.plain_upper_half_increment": "puhi",
              CM + "[$i].value()": "q[$i].value()", "&%s[$i].value()" % CM: "q[$i].value()", "c.total_coeff_modulus": "total"},
    "optional": ["c.total_coeff_modulus"],          # (read only inside the two calls below in the present source)
    "effects": {"c.qualifiers.using_fast_plain_lift = true": "fast = 1;", "c.qualifiers.using_fast_plain_lift = false": "fast = 0;",
                "util::divide_uint(c.total_coeff_modulus.as_slice(), $w.as_slice(), &$d, &c.upper_half_increment)": "divide_uint(total, &$w, &mut $d, uhi);",
                BASE + ".decompose(&$d)": "decompose(q, &mut $d);",
                BASE + ".decompose(&c.upper_half_increment)": "decompose(q, uhi);",
                "c.coeff_div_plain_modulus = mulop_new_each($d, %s)" % BASE: "cdp = $d.to_vec();",
                "util::sub_uint(&c.total_coeff_modulus, &$w, &c.plain_upper_half_increment)": "sub_uint(total, &$w, puhi);",
                },
}

SK_CKKS = {
    "sig": "fn validate_ckks_consts(q: &[Modulus], total: &[u64], puhi: &mut Vec<u64>, uht: &mut Vec<u64>) -> u64",
    "prologue": "let mut puht: u64 = 0;", "epilogue": "puht",
    "handles": [CM],
    "exprs": {CM + ".len()": "q.len()", "c.plain_upper_half_threshold": "puht", "c.plain_upper_half_increment": "puhi", "c.upper_half_threshold": "uht",
              CM + "[$i].value()": "q[$i].value()", CM + "[$i].reduce(1 << 63)": "q[$i].reduce(1 << 63)", "&%s[$i]" % CM: "&q[$i]"},
    "effects": {"util::increment_uint(&c.total_coeff_modulus, &c.upper_half_threshold)": "add_uint_u64(total, 1, uht);",
                "util::right_shift_uint_inplace(&c.upper_half_threshold, 1, $k)": "right_shift_uint_inplace(uht, 1, $k);"},
}

# `create_next_context_data` (chain construction).  Levels are identified by their NUMBER OF PRIMES (all levels of one context carry prefixes of the
# same list: the new parameter set is the previous one with the last modulus popped); `valid[n] != 0` <=> `validate` accepts the prefix of length n;
# PARMS_ID_ZERO is the count 0; `chain` records the counts of the levels inserted into the map, in order.
PREV = "context_data_map.get(prev_parms_id).unwrap()"
NP0 = PREV + ".parms.clone()"
NCM = NP0 + ".coeff_modulus().to_vec()"
NP1 = NP0 + ".set_coeff_modulus(&%s)" % NCM
NID = "*%s.parms_id()" % NP1
NCD = "Self::validate(%s, sec_level)" % NP1
SK_CREATE_NEXT = {
    "sig": "fn create_next_context_data(prev_len: usize, valid: &[u64], chain: &mut Vec<u64>) -> usize",
    "prologue": "let mut next_len = prev_len;", "epilogue": "next_len",
    "handles": [NP0, NCM, NP1, NID, NCD, PREV, "Arc::new(%s)" % NCD],
    "exprs": {NCD + ".qualifiers.parameters_set()": "valid[next_len] != 0", "PARMS_ID_ZERO": "0"},
    "effects": {NCM + ".pop()": "next_len = next_len - 1; assert!(next_len >= 1);",
                NCD + ".prev_context_data = Some(Arc::downgrade(%s))" % PREV: "",
                "unsafe": "", NID: "",          # (the tail expression `next_parms_id`: the result is the epilogue's `next_len`)
                "context_data_map.insert(%s, Arc::new(%s))" % (NID, NCD): "chain.push(next_len as u64);"},
}

# the chain part of `HeContext::new`: from the first to the last top-level statement that calls `create_next_context_data` (the choice of the first data
# level and the `while` loop that expands the chain).  Parameter ids are prime counts as above; the key level has `k` primes.
KEYID = "*parms.parms_id()"
MAP = "HashMap::new()"          # (the local `context_data_map`, whatever it is called: a handle standing for the map being built)
MAPGET = MAP + ".get(&%s).unwrap()"
SK_NEW_CHAIN = {
    "sig": "fn new_chain(k: usize, valid: &[u64], special: bool, chain: &mut Vec<u64>)",
    "handles": [KEYID, MAP],
    "exprs": {KEYID: "k", "PARMS_ID_ZERO": "0", "parms.coeff_modulus().len()": "k", "parms.use_special_prime_for_encryption()": "special",
              (MAPGET % KEYID) + ".qualifiers.parameters_set()": "valid[k] != 0",
              (MAPGET % "$x") + ".parms.coeff_modulus().len()": "$x",
              "Self::create_next_context_data(&%s, &%s, sec_level)" % (MAP, KEYID): "create_next_context_data(k, valid, chain)",
              "Self::create_next_context_data(&%s, &$x, sec_level)" % MAP: "create_next_context_data($x, valid, chain)"},
}

# NOT generated (kept for the record): the first statement of the range is `let first_parms_id = if .. { .. create_next_context_data(&mut map, ..) .. }`, a
# value-`if` whose branch writes through a `&mut` argument; the translator has no merge for that (it now REFUSES it: "`if` used as a value assigns outer
# variables ['chain']"; before the round-7 fix in `if_value` the update of `chain` was silently dropped).  Also a `while` nested in an `if` is refused.
NEW_CHAIN_FRAGMENT = {"name": "new_chain", "fn": "new", "impl": "HeContext", "mut_lets": True,
             "arm": r"\bif\s+\w+\s*&&\s*[^{};]*parameters_set\s*\(\s*\)\s*\{", "contains": r"\bcreate_next_context_data\b|\bwhile\b|\blet\b",
             "params": "parms: EncryptionParameters, expand_mod_chain: bool, sec_level: SecurityLevel",
             "opts": {"skeleton": SK_NEW_CHAIN, "nested_loops": True, "loops": [{"fuel": "k"}]}}

# the choice of the first data level in `HeContext::new`: the FIRST top-level statement that calls `create_next_context_data`
# (`let first_parms_id = if <key invalid || one modulus || special prime> { key } else { .. create_next_context_data(..) .. };`), after the desugaring
# `desugar_let_if`.  Result: the trace of created levels (empty = first level is the key level, [k-1] = the level below it).
SK_NEW_FIRST = {
    "sig": "fn new_first(k: usize, valid: &[u64], special: bool, chain: &mut Vec<u64>)",
    "handles": [KEYID, MAP],
    "exprs": {KEYID: "k", "PARMS_ID_ZERO": "0", "parms.coeff_modulus().len()": "k", "parms.use_special_prime_for_encryption()": "special",
              (MAPGET % KEYID) + ".qualifiers.parameters_set()": "valid[k] != 0",
              "Self::create_next_context_data(&%s, &%s, sec_level)" % (MAP, KEYID): "create_next_context_data(k, valid, chain)"},
}

SPEC = {"ctx_mode": True, "ns": "GenX", "imports": ["Heathcliff.Gen.WordFns", "Heathcliff.Gen.RnsFns"], "opens": ["HC.GenW"], "prelude": PRELUDE,
        "table": [{"file": UR, "fn": "decompose", "impl": "RNSBase", "lean": "rns_decompose", "model": "decomposeW", "skeleton": SK_DECOMPOSE, "register_as": "decompose", "nested_loops": True}],
        "fragments": [
            {"name": "validate_total", "start": r"c \. total_coeff_modulus =|c\.total_coeff_modulus =", "end": r"c\.total_coeff_modulus_bit_count =", "opts": {"skeleton": SK_TOTAL}},
            {"name": "validate_bfv_consts", "arm": r"SchemeType\s*::\s*BFV\s*\|\s*SchemeType\s*::\s*BGV\s*=>\s*\{", "start": r"c\.qualifiers\.using_fast_plain_lift = true ;|c\.qualifiers\.using_fast_plain_lift = true;",
             "opts": {"skeleton": SK_BFV, "nested_loops": True}},
            {"name": "validate_ckks_consts", "arm": r"SchemeType\s*::\s*CKKS\s*=>\s*\{", "start": r"c\.plain_upper_half_threshold =",
             "opts": {"skeleton": SK_CKKS}},
            {"name": "create_next_context_data", "fn": "create_next_context_data", "whole": True,
             "params": "context_data_map: Map, prev_parms_id: ParmsID, sec_level: SecurityLevel",
             "opts": {"skeleton": SK_CREATE_NEXT, "register_as": "create_next_context_data"}},
            {"name": "new_first", "fn": "new", "impl": "HeContext", "mut_lets": True, "contains": r"\bcreate_next_context_data\b", "first_only": True,
             "let_if": "usize", "params": "parms: EncryptionParameters, expand_mod_chain: bool, sec_level: SecurityLevel",
             "opts": {"skeleton": SK_NEW_FIRST}},
        ]}
