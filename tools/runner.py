"""Orchestrator for ./check (see DESIGN.md §3)."""
import os, sys, json, time, subprocess, re, fcntl, hashlib, collections, shutil

ROOT = os.path.dirname(os.path.dirname(os.path.abspath(__file__)))
LEAN = os.path.join(ROOT, "lean")
HARN = os.environ.get("VERIF_HARNESS", os.path.join(ROOT, "harness"))     # overrides: only used by tools/seedtest.sh (scratch copies)
BUILD = os.environ.get("VERIF_BUILD", os.path.join(ROOT, "build"))
OUTDIR = os.environ.get("VERIF_OUT", ROOT)                                # where evidence/ and replays/ are written
REPO = os.environ.get("VERIF_REPO", "/repo")
DRV = os.path.join(LEAN, ".lake", "build", "bin", "hcdrv")
HBIN = os.path.join(BUILD, "cargo", "release", "hcharness")
JOBS = int(os.environ.get("VERIF_JOBS", "12"))
ALLOWED_AXIOMS = {"propext", "Classical.choice", "Quot.sound"}
FORBIDDEN = re.compile(r"\b(sorry|admit|native_decide|bv_decide|implemented_by|unsafe)\b|^\s*axiom\s|maxHeartbeats\s+0")

sys.path.insert(0, os.path.join(ROOT, "tools"))
import props as PROPS  # per-property configuration


def sh(cmd, cwd=None, env=None, timeout=None, inp=None):
    e = dict(os.environ)
    e.update({"CARGO_NET_OFFLINE": "true", "CARGO_TARGET_DIR": os.path.join(BUILD, "cargo")})
    if env: e.update(env)
    p = subprocess.run(cmd, cwd=cwd, env=e, stdout=subprocess.PIPE, stderr=subprocess.STDOUT,
                       timeout=timeout, input=inp, text=True, errors="replace")
    return p.returncode, p.stdout


class Lock:
    def __init__(self, name):
        os.makedirs(BUILD, exist_ok=True)
        self.f = open(os.path.join(BUILD, name), "w")
    def __enter__(self): fcntl.flock(self.f, fcntl.LOCK_EX); return self
    def __exit__(self, *a): fcntl.flock(self.f, fcntl.LOCK_UN); self.f.close()


# ---------------------------------------------------------------- build steps

def run_extract():
    rc, out = sh([sys.executable, os.path.join(ROOT, "tools", "extract.py"), REPO, os.path.join(LEAN, "Heathcliff", "Gen")])
    return rc, out

def lake_build(targets):
    rc, out = sh(["lake", "build"] + targets, cwd=LEAN, timeout=3600)
    return rc, out

def cargo_build():
    lock = os.path.join(HARN, "Cargo.lock")
    if not os.path.exists(lock) and os.path.exists(os.path.join(REPO, "Cargo.lock")):
        shutil.copy(os.path.join(REPO, "Cargo.lock"), lock)
    rc, out = sh(["cargo", "build", "--release", "--offline"], cwd=HARN, timeout=3600)
    return rc, out


def strip_comments(src):
    src = re.sub(r"/-.*?-/", lambda m: "\n" * m.group(0).count("\n"), src, flags=re.S)
    return "\n".join(l.split("--")[0] for l in src.split("\n"))

def lean_deps(mod, seen=None):
    """transitive Heathcliff.* imports of a module (source files of this project only)"""
    seen = seen if seen is not None else set()
    if mod in seen: return seen
    path = os.path.join(LEAN, *mod.split(".")) + ".lean"
    if not os.path.exists(path): return seen
    seen.add(mod)
    for l in open(path):
        m = re.match(r"\s*(?:public\s+)?import\s+((?:Heathcliff|Driver)\.[\w.]+)", l)
        if m: lean_deps(m.group(1), seen)
    return seen

def audit(prop):
    """returns (obligations, discharged, problems, theorem-list)"""
    cfg = PROPS.P[prop]
    problems = []
    mods = set()
    for m in cfg["lean_modules"]: lean_deps(m, mods)
    for m in sorted(mods):
        path = os.path.join(LEAN, *m.split(".")) + ".lean"
        src = strip_comments(open(path).read())
        for i, l in enumerate(src.split("\n")):
            if FORBIDDEN.search(l):
                problems.append(f"{m}:{i+1}: forbidden construct: {l.strip()[:80]}")
    audit_file = os.path.join(LEAN, "Heathcliff", "Audit", prop + ".lean")
    thms = []
    if not os.path.exists(audit_file):
        return 0, 0, problems + ["no audit file"], thms
    rc, out = sh(["lake", "env", "lean", audit_file], cwd=LEAN, timeout=1800)
    if rc != 0:
        problems.append("audit file does not elaborate: " + out[-2000:])
    # parse "'name' depends on axioms: [a, b]" / "'name' does not depend on any axioms"
    ok = 0
    for m in re.finditer(r"'(\S+)' (does not depend on any axioms|depends on axioms: \[([^\]]*)\])", out):
        name = m.group(1)
        axs = set(a.strip() for a in (m.group(3) or "").replace("\n", " ").split(",") if a.strip())
        bad = axs - ALLOWED_AXIOMS
        thms.append({"theorem": name, "axioms": sorted(axs)})
        if bad: problems.append(f"{name} depends on non-whitelisted axioms {sorted(bad)}")
        else: ok += 1
    want = len(re.findall(r"^\s*#print axioms", open(audit_file).read(), flags=re.M))
    if len(thms) != want:
        problems.append(f"audit listed {want} theorems but {len(thms)} were reported")
    return want, ok, problems, thms


# ---------------------------------------------------------------- correspondence

def is_err(s): return s.startswith("ERR")

def same(a, b):
    return a == b or (is_err(a) and is_err(b))

def run_harness(prop, tier, seed, extra=(), timeout=3600):
    cmd = [HBIN, prop, tier, str(seed)] + list(extra)
    try:
        p = subprocess.run(cmd, stdout=subprocess.PIPE, stderr=subprocess.PIPE, text=True, errors="replace", timeout=timeout)
        return p.returncode, p.stdout, p.stderr
    except subprocess.TimeoutExpired as e:
        out = e.stdout.decode(errors="replace") if isinstance(e.stdout, bytes) else (e.stdout or "")
        return 124, out, f"harness did not finish within {timeout} s"

def run_driver(lines, timeout=3600):
    p = subprocess.run([DRV], input="\n".join(lines) + "\n", stdout=subprocess.PIPE, stderr=subprocess.PIPE,
                       text=True, errors="replace", timeout=timeout)
    return p.returncode, p.stdout.split("\n"), p.stderr

def parse_case(line):
    cls = ""
    if " # " in line:
        line, cls = line.rsplit(" # ", 1)
    if " => " not in line: return None
    lhs, impl = line.split(" => ", 1)
    return lhs, impl, cls

class Result:
    def __init__(self):
        self.n = 0; self.spec_fail = []; self.model_fail = []; self.distinct = set(); self.nontrivial = set()
        self.classes = collections.Counter(); self.fns = collections.Counter(); self.errs = collections.Counter()
        self.samples = []; self.any = 0; self.notes = collections.Counter(); self.harness_errors = []

def compare(prop, case_lines, res, run=None):
    """three-way comparison (DESIGN.md §2).  Lines starting with `!` are verdict lines produced by
    in-harness oracles: `!OK fn args # class`, `!FAIL fn args :: what # class`, `!NOTE text`."""
    todo = []
    for l in case_lines:
        if not l: continue
        if l.startswith("!NOTE "):
            res.notes[l[6:]] += 1; continue
        if l.startswith("!OK ") or l.startswith("!FAIL "):
            body, cls = (l.rsplit(" # ", 1) + [""])[:2] if " # " in l else (l, "")
            ok = l.startswith("!OK ")
            body = body[4:] if ok else body[6:]
            lhs = body.split(" :: ")[0]
            res.n += 1; res.classes[cls] += 1; res.fns[lhs.split(" ")[0]] += 1
            res.distinct.add(lhs)
            if not cls.startswith("trivial"): res.nontrivial.add(lhs)
            if len(res.samples) < 6 and (res.n % 97 == 1): res.samples.append(l[:400])
            if not ok: res.spec_fail.append({"case": lhs, "what": body.split(" :: ", 1)[-1], "kind": "impl-vs-oracle", "run": run})
            continue
        pc = parse_case(l)
        if pc is None:
            res.harness_errors.append(l[:200]); continue
        todo.append((l, pc))
    if not todo: return
    # the driver is single-threaded: shard the cases over several driver processes
    lines = [t[0].rsplit(" # ", 1)[0] for t in todo]
    nshard = max(1, min(JOBS, len(lines) // 8))
    size = (len(lines) + nshard - 1) // nshard
    chunks = [lines[i:i + size] for i in range(0, len(lines), size)]
    import concurrent.futures
    outs = []
    with concurrent.futures.ThreadPoolExecutor(max_workers=nshard) as ex:
        for (rc, o, err), ch in zip(ex.map(run_driver, chunks), chunks):
            o = o[:len(ch)] if len(o) >= len(ch) else o + ["BAD driver-died"] * (len(ch) - len(o))
            if rc != 0:
                res.harness_errors.append(f"driver failed rc={rc}: {err[-500:]}")
            outs += o
    for (l, (lhs, impl, cls)), o in zip(todo, outs):
        res.n += 1
        fn = lhs.split(" ")[0]
        res.fns[fn] += 1; res.classes[cls] += 1
        if " | " not in o:
            res.model_fail.append({"case": lhs, "impl": impl, "driver": o, "kind": "driver-no-answer"}); continue
        model, spec = o.split(" | ", 1)
        flags = ""
        if " | " in spec: spec, flags = spec.split(" | ", 1)
        if is_err(impl): res.errs[impl] += 1
        res.distinct.add(lhs)
        trivial = is_err(impl) or spec == "ANY" or cls.startswith("trivial")
        if not trivial: res.nontrivial.add(lhs)
        if spec == "ANY": res.any += 1
        elif not same(impl, spec):
            res.spec_fail.append({"case": lhs, "impl": impl[:2000], "spec": spec[:2000], "model": model[:2000], "kind": "impl-vs-spec", "run": run})
        if model != "ANY" and not same(impl, model):
            res.model_fail.append({"case": lhs, "impl": impl[:2000], "model": model[:2000], "spec": spec[:2000], "kind": "impl-vs-model", "run": run})
        if len(res.samples) < 6 and (res.n % 211 == 1):
            res.samples.append((lhs + " => " + impl)[:400] + " || model=" + model[:100] + " spec=" + spec[:100])


# ---------------------------------------------------------------- known findings

def load_known():
    p = os.path.join(ROOT, "known_findings.json")
    if not os.path.exists(p): return []
    return json.load(open(p)).get("findings", [])

def match_known(prop, fail, known):
    for k in known:
        if k.get("status") != "known" or k.get("property") != prop: continue
        if re.search(k["match"], fail["case"]):
            return k
    return None


# ---------------------------------------------------------------- main check

def write_replay(prop, seed, payload):
    d = os.path.join(OUTDIR, "replays"); os.makedirs(d, exist_ok=True)
    p = os.path.join(d, f"{prop}-{seed}.json")
    json.dump(payload, open(p, "w"), indent=1)
    return p

def check(prop, tier, seed, budget=None):
    t0 = time.time()
    cfg = PROPS.P[prop]
    log = []
    broken = []       # broken obligations / correspondence (names)
    os.makedirs(os.path.join(OUTDIR, "evidence"), exist_ok=True)
    with Lock(".buildlock"):
        rc, out = run_extract()
        if rc != 0:
            # only the generated files this property's theorems / the driver depend on count against it
            failed = re.findall(r"^extract.py: FAILED (\S+)\.lean :: (.*)$", out, flags=re.M)
            deps = set()
            for m in cfg["lean_modules"] + ["Driver.Main"]: lean_deps(m, deps)
            mine = [(f, msg) for f, msg in failed if "Heathcliff.Gen." + f in deps]
            if mine or not failed:
                broken.append({"obligation": "Gen extraction (tools/extract.py): " + ", ".join(f for f, _ in mine), "detail": (" | ".join(f + ": " + msg for f, msg in mine) or out)[-3000:]})
            other_gen_failures = [f for f, _ in failed if (f, _) not in mine]
        else: other_gen_failures = []
        rc, out = lake_build(cfg["lean_modules"] + ["hcdrv"])
        if rc != 0:
            bad = re.findall(r"^- (\S+)", out, flags=re.M)
            errs = re.findall(r"^error: (.*)$", out, flags=re.M)[:10]
            broken.append({"obligation": "lake build " + " ".join(bad or cfg["lean_modules"]), "detail": errs})
        # supplementary: concrete witnesses of every hypothesis bundle (Proofs/NonVac.lean imports most of the development; a failure here
        # is recorded in the evidence, it is not an obligation of this property)
        nv_rc, nv_out = lake_build(["Heathcliff.Proofs.NonVac", "Heathcliff.Proofs.C06YW", "Heathcliff.Proofs.C04RW", "Heathcliff.Proofs.GenRnsW", "Heathcliff.Proofs.GenDwtW"]) if not broken else (1, "skipped: an obligation of the property is already broken")
        nv_src = strip_comments(open(os.path.join(LEAN, "Heathcliff", "Proofs", "NonVac.lean")).read())
        if any(FORBIDDEN.search(l) for l in nv_src.split("\n")): nv_rc, nv_out = 1, "error: forbidden construct in NonVac.lean"
        nonvac = "built (lake build Heathcliff.Proofs.NonVac)" if nv_rc == 0 else "NOT built: " + " | ".join(re.findall(r"^error: (.*)$", nv_out, flags=re.M)[:3] or [nv_out[-200:]])
        rc, out = cargo_build()
        if rc != 0:
            broken.append({"obligation": "harness build against /repo working tree (cargo)", "detail": re.findall(r"^error.*$", out, flags=re.M)[:10]})
        obligations, discharged, problems, thms = (0, 0, [], [])
        if not any(b["obligation"].startswith("lake build") for b in broken):
            obligations, discharged, problems, thms = audit(prop)
            for p in problems: broken.append({"obligation": "audit", "detail": p})
    res = Result()
    harness_ok = not any("harness build" in b["obligation"] for b in broken) and os.path.exists(DRV)
    runs = cfg["runs"](tier, seed) if harness_ok else []
    import concurrent.futures
    def one(extra):
        s = extra.get("seed", seed)
        return extra, run_harness(prop, tier, s, extra.get("args", ()), timeout=extra.get("timeout", 1500 if tier == "quick" else 7200))
    with concurrent.futures.ThreadPoolExecutor(max_workers=max(1, min(JOBS, len(runs) or 1))) as ex:
        results = list(ex.map(one, runs))
    for extra, (rc, out, err) in results:
        lines = out.split("\n")
        if rc != 0:
            res.harness_errors.append(f"harness exit {rc} (seed {extra.get('seed', seed)} args {extra.get('args', ())}): {err[-800:]}")
        compare(prop, lines, res, run={"tier": tier, "seed": extra.get("seed", seed), "args": list(extra.get("args", ()))})
    known = load_known()
    viol = []; known_hits = {}
    for f in res.spec_fail:
        k = match_known(prop, f, known)
        if k: known_hits.setdefault(k["what"], f)
        else: viol.append(f)
    corr_broken = [f for f in res.model_fail if not any(f["case"] == v["case"] for v in res.spec_fail)]
    if res.harness_errors: broken.append({"obligation": "correspondence harness ran to completion", "detail": res.harness_errors[:5]})
    if corr_broken: broken.append({"obligation": f"correspondence impl = model ({len(corr_broken)} disagreements)", "detail": corr_broken[:5]})
    if harness_ok and res.n == 0: broken.append({"obligation": "correspondence harness produced no cases", "detail": ""})
    searched = 0
    if broken and not viol and harness_ok:
        # search the implementation for a concrete failing input (DESIGN.md §2 "when something breaks")
        for extra in cfg.get("search", lambda t, s: [])(tier, seed):
            r2 = Result()
            rc, out, err = run_harness(prop, "thorough", extra.get("seed", seed), extra.get("args", ()), timeout=extra.get("timeout", 1800))
            compare(prop, out.split("\n"), r2, run={"tier": "thorough", "seed": extra.get("seed", seed), "args": list(extra.get("args", ()))})
            searched += r2.n
            for f in r2.spec_fail:
                if not match_known(prop, f, known): viol.append(f)
            if viol: break
    status = 0
    for what, f in known_hits.items():
        print(f"KNOWN-FINDING: property={prop} {what} [{f['case'][:120]}]")
    if viol:
        rp = write_replay(prop, seed, {"property": prop, "kind": "failing-input", "failures": viol[:20], "broken": broken,
                                       "how": f"./check {prop} --replay <this file>"})
        print(f"VIOLATION property={prop} replay={rp}")
        for f in viol[:3]: print("  failing case:", json.dumps(f)[:600])
        status = 1
    elif broken:
        rp = write_replay(prop, seed, {"property": prop, "kind": "obligation-or-correspondence-broken", "broken": broken,
                                       "search": f"{searched} further cases searched on the implementation, none violates the spec oracle"})
        print(f"VIOLATION property={prop} replay={rp} no-failing-input-found")
        for b in broken[:3]: print("  broken:", json.dumps(b)[:600])
        status = 1
    ev = {
        "property_id": prop, "tier": tier, "seed": seed, "level": cfg.get("level", "proof"),
        "coverage": {
            "obligations": obligations, "discharged": discharged,
            "checker_cmd": f"cd /verif/lean && lake build {' '.join(cfg['lean_modules'])} && lake env lean Heathcliff/Audit/{prop}.lean  (#print axioms on every property theorem; whitelist propext, Classical.choice, Quot.sound)",
            "trusted_base": cfg.get("trusted_base", []) + PROPS.COMMON_TRUSTED,
            "theorems": thms,
            "nonvacuity_witnesses": nonvac,
            "evaluations": res.n, "distinct_nontrivial": len(res.nontrivial), "distinct": len(res.distinct),
            "rule": cfg.get("rule", "") + " A case is one line `fn args`; distinct = distinct line; non-trivial = the implementation did not refuse it, the spec makes a claim about it (not outside the documented domain) and its generator class is not marked trivial.",
            "samples": res.samples or ["(no correspondence cases: " + "; ".join(b["obligation"] for b in broken) + ")"],
            "functions": dict(res.fns), "classes": dict(res.classes.most_common(60)), "impl_refusals": dict(res.errs),
            "outside_documented_domain": res.any, "notes": dict(res.notes),
            "model_disagreements": len(res.model_fail), "spec_disagreements": len(res.spec_fail),
            "search_evaluations": searched, "exhaustive": bool(cfg.get("exhaustive", {}).get(tier, False)),
            "explanation": cfg.get("explanation", ""),
            "generated_files_failing_elsewhere": other_gen_failures,
        },
        "assumptions": cfg.get("assumptions", []),
        "wall_s": round(time.time() - t0, 2), "violations": len(viol) + (1 if (broken and not viol) else 0),
        "known_findings_hit": list(known_hits.keys()),
    }
    if cfg.get("extra_coverage"): ev["coverage"].update(cfg["extra_coverage"](res))
    try:
        import apicensus
        c = apicensus.census(prop)
        ev["coverage"]["api_census"] = {"what": "public functions of the source files this property is anchored in: called in-process by the harness / translated into Lean / neither (tools/apicensus.py; a function no generator touches is outside the correspondence)",
            "public_functions": c["public_functions"], "called_by_harness": c["called_by_harness"], "translated": c["translated"], "not_exercised": c["not_exercised"]}
    except Exception as e:
        ev["coverage"]["api_census"] = {"error": str(e)}
    json.dump(ev, open(os.path.join(OUTDIR, "evidence", prop + ".json"), "w"), indent=1)
    if status == 0:
        print(f"OK property={prop} tier={tier} obligations={discharged}/{obligations} cases={res.n} nontrivial={len(res.nontrivial)} wall={ev['wall_s']}s")
    return status


def replay(prop, path):
    """re-run the recorded failing cases: the harness run that produced them is repeated (same tier / seed / args, so the same
    case lines are generated from the current /repo tree), the recorded cases are picked out by their left-hand side and sent
    through implementation, model and spec again; prints the three values and exits 1 if a case still fails"""
    d = json.load(open(path))
    fails = d.get("failures", [])
    if not fails:
        print(json.dumps(d, indent=1)); return 0
    with Lock(".buildlock"):
        cargo_build(); lake_build(["hcdrv"])
    st = 0
    by_run = collections.OrderedDict()
    for f in fails:
        r = f.get("run") or {"tier": "quick", "seed": 1, "args": []}
        by_run.setdefault(json.dumps(r, sort_keys=True), []).append(f)
    for rk, fs in by_run.items():
        r = json.loads(rk)
        rc, out, err = run_harness(prop, r["tier"], r["seed"], r["args"])
        want = set(f["case"] for f in fs)
        lines = []
        for l in out.split("\n"):
            if l.startswith("!"):
                body = l.split(" ", 1)[1] if " " in l else ""
                lhs = body.rsplit(" # ", 1)[0].split(" :: ")[0]
            else:
                pc = parse_case(l); lhs = pc[0] if pc else None
            if lhs in want: lines.append(l)
        res = Result(); compare(prop, lines, res, run=r)
        print(f"run tier={r['tier']} seed={r['seed']} args={r['args']}: {len(lines)} of {len(want)} recorded cases regenerated")
        for l in lines[:10]: print("  case:", l[:400])
        for f in res.spec_fail[:10]: print("  STILL FAILS (impl vs spec):", json.dumps({k: f[k] for k in f if k != "run"})[:700])
        for f in res.model_fail[:10]: print("  model disagrees:", json.dumps({k: f[k] for k in f if k != "run"})[:500])
        if res.spec_fail or res.model_fail: st = 1
        if len(lines) < len(want): print("  (some recorded cases were not regenerated: generation depends on library randomness or the tree changed)")
    return st


def setup():
    with Lock(".buildlock"):
        rc, out = run_extract(); print(out[-2000:])
        if rc != 0: return 1
        rc, out = lake_build([]); print(out[-4000:])
        if rc != 0: return 1
        rc, out = cargo_build(); print(out[-1500:])
        if rc != 0: return 1
        rc, out = lake_build(["Heathcliff.Proofs.NonVac", "Heathcliff.Proofs.C06YW", "Heathcliff.Proofs.C04RW", "Heathcliff.Proofs.GenRnsW", "Heathcliff.Proofs.GenDwtW"]); print("non-vacuity witnesses:", "built" if rc == 0 else "NOT built (supplementary, not fatal)")
    return 0


def main(argv):
    if not argv or argv[0] in ("-h", "--help"):
        print(__doc__); return 2
    if argv[0] == "--setup": return setup()
    prop = argv[0]
    if prop not in PROPS.P:
        print("unknown property", prop); return 2
    tier = os.environ.get("VERIF_TIER", "quick")
    seed = int(os.environ.get("VERIF_SEED", "1") or 1)
    i = 1
    while i < len(argv):
        if argv[i] == "--tier": tier = argv[i+1]; i += 2
        elif argv[i] == "--seed": seed = int(argv[i+1]); i += 2
        elif argv[i] == "--replay": return replay(prop, argv[i+1])
        else: i += 1
    return check(prop, tier, seed)
