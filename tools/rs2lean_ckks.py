"""Translator phase 4k ("encoder mode", worker Y): the INTEGER side of the CKKS encoder (src/ckks_encoder.rs):
`encode_internal_c64_array`, `encode_internal_f64_polynomial`, `encode_internal_f64_single`, `encode_internal_i64_single`.
Output: Gen/CkksFns.lean (`HC.GenK`).  See notes/work7-Y.md for the accepted subset and the trusted readings.

The functions mix double-precision arithmetic (opaque to the kernel) with the integer logic this phase ties to the source: the maximum
scan that yields the bit count, the refusal, the three-way path selection, the per-path sign handling and reduction loops.  The floats
enter only through the READINGS below (regular expressions over the blank-separated token text of the function; every reading must match
the stated number of times, otherwise the translator fails loudly); what remains is integer code, lowered by the small `Lower` class to
`R = Except Err` code with explicit state passing: `for i in lo..hi` = `forRange lo hi state body`, `while c` = `whileFuel fuel state
cond body` (fuel from the table; exhaustion = `.error .other`), plain `+ - *` on words = `ckAdd/ckSub/ckMul`, a panic = `.error .refused`.
Anything not listed raises `Unsupported`.  Locals are named by position (v1, v2, ...), so renaming them changes only the doc comment.

Float readings (TRUSTED, the same as Model/CkksEncoder.lean): a local holding a rounded coefficient is an `Int`;
`x < 0.0` = `x < 0`, `x >= 1.0` = `x >= 1`, `x.abs()` = `|x|`, `x as u64` = `satU64 x.toNat` (saturating, negative = 0),
`x % 2^64` / `x / 2^64` = `Int.tmod` / `Int.tdiv` by 2^64 (exact on doubles; after a division the Int is the integer part of the double,
which determines every later `>= 1.0`, `% 2^64 as u64` and `/ 2^64` of a NON-NEGATIVE value: the code takes `.abs()` first).
`cb[i]` = `ceil(log2(max(|x_i|, 1)))` of the UNROUNDED coefficient x_i (so |round x_i| <= 2^cb[i]); `log2`, `ceil`, `max` are monotone, so
`(max_i |x_i|).max(1.0).log2().ceil() as usize` = `max_i cb[i]`; the scan itself (over which entries) is what is translated.
`rc[i]` = `round(x_i)`."""
import re, os, hashlib

CK = "src/ckks_encoder.rs"

PRELUDE = """/-- bounds-checked reads / writes -/
def idx (l : List Nat) (i : Nat) : R Nat := match l[i]? with | some x => .ok x | none => .error .oob
def idxI (l : List Int) (i : Nat) : R Int := match l[i]? with | some x => .ok x | none => .error .oob
def idxT (l : List Modulus) (i : Nat) : R Modulus := match l[i]? with | some x => .ok x | none => .error .oob
def setIdx (l : List Nat) (i v : Nat) : R (List Nat) := if i < l.length then .ok (l.set i v) else .error .oob
/-- `for i in lo..hi { s = body i s }` -/
def forLoop {σ : Type} (body : Nat → σ → R σ) : Nat → Nat → σ → R σ
  | 0, _, s => pure s
  | t+1, i, s => do let s ← body i s; forLoop body t (i + 1) s
def forRange {σ : Type} (lo hi : Nat) (s : σ) (body : Nat → σ → R σ) : R σ := forLoop body (hi - lo) lo s
/-- `while cond s { s = body s }` on fuel (table entry; exhaustion = `.error .other`, never reached on the domain of the theorems) -/
def whileFuel {σ : Type} (cond : σ → Bool) (body : σ → R σ) : Nat → σ → R σ
  | 0, _ => .error .other
  | f+1, s => if cond s then do let s ← body s; whileFuel cond body f s else pure s
/-- TRUSTED float readings (see the header of tools/rs2lean_ckks.py; the same definitions as Model/CkksEncoder.lean) -/
def fabs (x : Int) : Int := Int.ofNat x.natAbs
def fToU64 (x : Int) : Nat := Ckks.satU64 x.toNat
def fmod64 (x : Int) : Int := Int.tmod x 18446744073709551616
def fdiv64 (x : Int) : Int := Int.tdiv x 18446744073709551616
/-- `iter().map(..).reduce(f64::max).unwrap()` over all / over the first `h` entries (`&v[..h]` panics when `h > len`); `None.unwrap()` panics -/
def maxAll (cb : List Nat) : R Nat := match cb with | [] => .error .other | x :: r => .ok (r.foldl max x)
def maxPrefix (cb : List Nat) (h : Nat) : R Nat := if h ≤ cb.length then maxAll (cb.take h) else .error .oob
def satAdd (a b : Nat) : Nat := if a + b < B64 then a + b else B64 - 1
/-- `Vec::resize(n, 0)` (src/text.rs `Plaintext::resize`), `slice.fill(v)` -/
def resizeL (l : List Nat) (n : Nat) : List Nat := l.take n ++ List.replicate (n - l.length) 0
def fillL (l : List Nat) (v : Nat) : List Nat := List.replicate l.length v
/-- `data.chunks_mut(c).enumerate()`: number of chunks (`c = 0` panics), `chunk.fill(v)` on chunk `j` -/
def nChunks (l : List Nat) (c : Nat) : R Nat := if c = 0 then .error .other else .ok ((l.length + c - 1) / c)
def fillChunk (l : List Nat) (c j v : Nat) : List Nat :=
  l.take (j * c) ++ List.replicate (min c (l.length - j * c)) v ++ l.drop (j * c + c)
"""

W = r"(\w+)"

# ---- readings: (kind, regex, replacement, count) ; kind "h" = `let [mut] X = <init> ;` removed, X replaced by the pseudo text afterwards;
#      "e" = expression / statement text replaced; count: exact number of matches required (None = at least one), 0.. = optional if "?" kind
def _common_head(values_len):
    return [
        ("h", r"self \. context \. get_context_data \( parms_id \)", "CDOPT", 1),
        ("e", r"CDOPT \. is_none \( \)", "( ! valid )", 1),
        ("h", r"CDOPT \. unwrap \( \)", "CD", 1),
        ("e", r"CD \. is_ckks \( \)", "is_ckks", 1),
        ("h", r"CD \. parms \( \)", "PARMS", 1),
        ("h", r"PARMS \. coeff_modulus \( \)", "moduli", 1),
        ("e", r"PARMS \. poly_modulus_degree \( \)", "degree", 1),
    ] + ([("e", r"values \. len \( \)", "nvalues", None)] if values_len else [])
SCALE = [("e", r"scale <= 0\.0 \|\| \( scale \. log2 \( \) \+ 1\.0 >= CD \. total_coeff_modulus_bit_count \( \) as f64 \)", "( ! scale_ok )", 1),
         ("e", r"CD \. total_coeff_modulus_bit_count \( \)", "total_bits", 1)]
HOOK = ("e", r"# \[ cfg \( feature = \"verif\" \) \] crate :: verif :: ckks_hooks :: record \( [^;]* \) ;", "", 1)
BITS = ("e", r"\( (__max_\w+ \( [^;]*? \)) \. max \( 1\.0 \) \. log2 \( \) \. ceil \( \) as usize \) \. saturating_add \( 1 \)", r"__sat_add ( \1 , 1 )", 1)
TWO64 = ("h", r"2\.0_f64 \. powi \( 64 \)", "__two64", 1)
DEST = [("e", r"destination \. set_parms_id \( PARMS_ID_ZERO \) ;", "", 1),
        ("e", r"destination \. resize \( ([^;]*) \) ;", r"dest = __resize ( dest , \1 ) ;", 1)]
DECOMP = ("e", r"CD \. rns_tool \( \) \. base_q \( \) \. decompose \( & mut (\w+) \) ;", r"\1 = __decompose ( \1 ) ;", 1)
TAILMETA = [("e", r"destination \. set_parms_id \( \* parms_id \) ;", "", 1), ("e", r"destination \. set_scale \( [\w.]+ \) ;", "", 1)]
NTT = [("h", r"CD \. small_ntt_tables \( \)", "NTTT", 1),
       ("e", r"assert_eq ! \( NTTT \. len \( \) , ([^;]*?) \) ;", r'if ntt_len != \1 { panic ! ( "" ) ; }', 1),
       ("e", r"polymod :: ntt_p \( destination \. data_mut \( \) , (\w+) , NTTT \) ;", r"dest = __ntt_p ( dest , \1 ) ;", 1)]
DATA_MUT = [("h*", r"destination \. data_mut \( \)", "dest", None)]
CHUNKS = ("e", r"for \( (\w+) , (\w+) \) in destination \. data_mut \( \) \. chunks_mut \( (\w+) \) \. enumerate \( \) \{ ((?:[^{}]*? )?)\2 \. fill \( ([^;]*) \) ; \}",
          r"for \1 in 0 .. __nchunks ( dest , \3 ) { \4dest = __fill_chunk ( dest , \3 , \1 , \5 ) ; }", None)

def _scan(src, per):
    """the maximum scan over `src` (a regex for the scanned collection, already in pseudo form) with the per-entry magnitude `per` (X = the closure's variable);
    group 1 of the full `let` regex is the local, group 2 the bound of a prefix scan"""
    body = r" \. map \( \| (?P<x>\w+) \| " + per.replace("X", "(?P=x)") + r" \) \. reduce \( f64 :: max \) \. unwrap \( \)"
    return [("h?", src + r" \. iter \( \)" + body, "__max_all ( cb )"),
            ("h?", src + r" \[ \.\. ([^\]]*?) \] \. iter \( \)" + body, r"__max_prefix ( cb , \2 )"),
            ("h?", src + r" \. iter \( \) \. take \( ([^;]*?) \)" + body, r"__max_prefix ( cb , \2 )")]

R_C64 = _common_head(True) + [("e", r"self \. slots", "slots", None)] + SCALE + NTT[:1] + [
    ("h", r"vec ! \[ Complex :: default \( \) ; (\w+) \]", "CONJ", 1),
    ("e", r"for (\w+) in 0 \.\. nvalues \{ CONJ \[ self \. matrix_reps_index_map \[ \1 \] \] = values \[ \1 \] ; "
          r"CONJ \[ self \. matrix_reps_index_map \[ \1 \+ slots \] \] = values \[ \1 \] \. conj \( \) ; \}", "", 1),
    ("h", r"scale / \( (\w+) as f64 \)", "FIX", 1),
    ("e", r"self \. fft_handler \. transform_from_rev \( & mut CONJ , util :: get_power_of_two \( \w+ as u64 \) as usize , & self \. inv_root_powers , Some \( & FIX \) \) ;", "", 1),
    ("scan", "CONJ", r"X \. re \. abs \( \)"), BITS, HOOK, TWO64] + DEST + DATA_MUT + [
    ("e", r"CONJ \[ (\w+) \] \. re \. round \( \)", r"rc [ \1 ]", None), DECOMP] + NTT[1:] + TAILMETA
R_F64P = _common_head(True) + [("e", r"self \. slots", "slots", None)] + NTT[:1] + SCALE + [TWO64] + DEST + [
    ("e", r"destination \. data_mut \( \) \. fill \( 0 \) ;", "dest = __fill ( dest , 0 ) ;", 1),
    ("scan", "values", r"\( X \* scale \) \. abs \( \)"), BITS, HOOK] + DATA_MUT + [
    ("e", r"\( values \[ (\w+) \] \* scale \) \. round \( \)", r"rc [ \1 ]", None), DECOMP] + NTT[1:] + TAILMETA
R_F64S = _common_head(False) + SCALE + [
    ("e", r"value \*= scale ;", "", 1),
    ("e", r"value \. abs \( \) \. log2 \( \) as usize", "vb", 1),
    HOOK, TWO64] + DEST + [
    ("e", r"value \. round \( \)", "rv", 1), CHUNKS, DECOMP] + TAILMETA
R_I64S = _common_head(False) + [("e", r"CD \. total_coeff_modulus_bit_count \( \)", "total_bits", 1)] + DEST + [CHUNKS] + [
    ("e", r"destination \. set_parms_id \( \* parms_id \) ;", "", 1), ("e", r"destination \. set_scale \( 1\.0 \) ;", "", 1)]

COMMON_IN = [("valid", "bool"), ("is_ckks", "bool")]
LEVEL_IN = [("total_bits", "nat"), ("moduli", "modlist"), ("degree", "nat")]
TABLE = [
    {"fn": "encode_internal_i64_single", "lean": "encode_internal_i64_single", "readings": R_I64S,
     "inputs": COMMON_IN + [("value", "i64")] + LEVEL_IN + [("dest", "list")], "model": "Ckks.encodeI64Single"},
    {"fn": "encode_internal_c64_array", "lean": "encode_internal_c64_array", "readings": R_C64,
     "inputs": COMMON_IN + [("nvalues", "nat"), ("slots", "nat"), ("scale_ok", "bool")] + LEVEL_IN +
               [("ntt_len", "nat"), ("cb", "list"), ("rc", "ilist"), ("__decompose", "fn1"), ("__ntt_p", "fn2"), ("dest", "list")],
     "fuel": "Int.natAbs {v} + 1", "model": "Ckks.encodeArrayRns"},
    {"fn": "encode_internal_f64_polynomial", "lean": "encode_internal_f64_polynomial", "readings": R_F64P,
     "inputs": COMMON_IN + [("nvalues", "nat"), ("slots", "nat"), ("scale_ok", "bool")] + LEVEL_IN +
               [("ntt_len", "nat"), ("cb", "list"), ("rc", "ilist"), ("__decompose", "fn1"), ("__ntt_p", "fn2"), ("dest", "list")],
     "fuel": "Int.natAbs {v} + 1", "model": "Ckks.encodeArrayRns"},
    {"fn": "encode_internal_f64_single", "lean": "encode_internal_f64_single", "readings": R_F64S,
     "inputs": COMMON_IN + [("scale_ok", "bool")] + LEVEL_IN + [("vb", "nat"), ("rv", "int"), ("__decompose", "fn1"), ("dest", "list")],
     "fuel": "Int.natAbs {v} + 1", "model": "Ckks.encodeSingleRns"},
]
LEANTY = {"nat": "Nat", "int": "Int", "i64": "Int", "bool": "Bool", "list": "List Nat", "ilist": "List Int", "modlist": "List Modulus", "mod": "Modulus",
          "fn1": "List Nat → R (List Nat)", "fn2": "List Nat → Nat → R (List Nat)"}
CALLS = {"util::negate_u64_mod": ("GenW.negate_u64_mod", ["nat", "mod"], "nat", True),
         "util::get_significant_bit_count": ("GenW.get_significant_bit_count", ["nat"], "nat", True),
         "__max_all": ("maxAll", ["list"], "nat", True), "__max_prefix": ("maxPrefix", ["list", "nat"], "nat", True),
         "__sat_add": ("satAdd", ["nat", "nat"], "nat", False), "__resize": ("resizeL", ["list", "nat"], "list", False),
         "__fill": ("fillL", ["list", "nat"], "list", False), "__nchunks": ("nChunks", ["list", "nat"], "nat", True),
         "__fill_chunk": ("fillChunk", ["list", "nat", "nat", "nat"], "list", False)}


def canon_text(src):
    toks = re.findall(r'"(?:[^"\\]|\\.)*"|[A-Za-z_][A-Za-z0-9_]*|[0-9][0-9_]*\.[0-9][0-9_]*(?:f64|f32)?|0x[0-9a-fA-F_]+[a-z0-9]*|[0-9][0-9_a-z]*|<<=|>>=|\.\.=|::|->|=>|==|!=|<=|>=|&&|\|\||\+=|-=|\*=|/=|%=|\^=|&=|\|=|<<|>>|\.\.|\S', src)
    return " ".join(toks)


class Gen:
    def __init__(self, T, tr, spec): self.T, self.tr, self.spec = T, tr, spec
    def fail(self, msg): raise self.T.Unsupported("encoder mode: " + msg)

    def body_text(self, ent):
        T = self.T; name = ent["fn"]
        src = T.strip_comments(open(os.path.join(self.tr.repo, CK)).read())
        lo, hi = 0, len(src)
        ms = list(re.finditer(r"\bfn\s+%s\s*\(" % re.escape(name), src[lo:hi]))
        if len(ms) != 1: self.fail(f"fn {name} found {len(ms)} times in {CK}")
        off = lo + ms[0].start(); line = src.count("\n", 0, off) + 1
        j = src.index("{", off); end = T.brace_block(src, j, f"fn {name}")
        text = canon_text(src[j:end])
        h = hashlib.sha256(canon_text(src[off:end]).encode()).hexdigest()[:16]
        return text, h, line, line + src.count("\n", off, end)

    def apply(self, ent, text):
        name = ent["fn"]
        rd = []
        for r in ent["readings"]:
            if r[0] == "scan": rd += _scan(r[1], r[2])
            else: rd.append(r)
        scan_hits = 0
        for r in rd:
            kind, rx, rep = r[0], r[1], r[2]; cnt = r[3] if len(r) > 3 else None
            if kind.startswith("h"):
                full = r"let (?:mut )?(\w+) = " + rx + " ;"
                n = 0
                while True:
                    m = re.search(full, text)
                    if not m: break
                    n += 1
                    local = m.group(1)
                    pseudo = m.expand(rep) if "\\" in rep else rep
                    text = text[:m.start()] + self.subst_local(text[m.end():], local, pseudo)
                    if kind == "h": break
                if kind == "h?": scan_hits += n; continue
                if n == 0 or (cnt is not None and n != cnt): self.fail(f"fn {name}: reading `{rx}` matches {n} times (expected {cnt if cnt is not None else '>= 1'})")
            else:
                text, n = re.subn(rx, rep, text)
                if n == 0 or (cnt is not None and n != cnt): self.fail(f"fn {name}: reading `{rx}` matches {n} times (expected {cnt if cnt is not None else '>= 1'})")
        if any(r[0] == "scan" for r in ent["readings"]) and scan_hits != 1: self.fail(f"fn {name}: the maximum scan matches {scan_hits} of the known forms")
        return text

    @staticmethod
    def subst_local(text, local, pseudo):
        """replace the identifier token `local` (not a field / method name) by the pseudo text"""
        toks = text.split(" "); out = []
        for i, t in enumerate(toks):
            if t == local and not (i > 0 and toks[i - 1] in (".", "::")): out.append(pseudo)
            else: out.append(t)
        return " ".join(out)

    def generate(self):
        spec = self.spec
        out = ["/- GENERATED by tools/rs2lean_ckks.py (via tools/rs2lean.py, tools/extract.py) from " + CK + " -- do not edit.",
               "   Translator phase 4k (encoder mode): the integer side of the CKKS encoder.  u64 / usize = Nat, a rounded double = Int, buffers = List Nat,",
               "   plain + - * on words are overflow-checked, panics are `.error .refused`, loops are `forRange` / `whileFuel` with explicit state;",
               "   locals are named by position (v1, ...; inputs keep the names of the reading table). -/"]
        out += [f"import {m}" for m in spec["imports"]] + ["", "set_option linter.unusedVariables false", "", f"namespace HC.{spec['ns']}", "open HC", "", PRELUDE]
        for ent in spec["table"]:
            text, h, l0, l1 = self.body_text(ent)
            text = self.apply(ent, text)
            p = self.T.Parser(self.T.tokenize("fn f ( ) " + text, l0), ent["fn"])
            fn = p.fn_item()
            out.append(Lower(self, ent, fn, h, l0, l1).translate())
        out += [f"end HC.{spec['ns']}", ""]
        return "\n".join(out)


class Lower:
    def __init__(self, gen, ent, fn, h, l0, l1):
        self.g, self.T, self.ent, self.fn, self.h, self.l0, self.l1 = gen, gen.T, ent, fn, h, l0, l1
        self.nv = self.nt = 0; self.namemap = []

    def fail(self, what, ln=None):
        raise self.T.Unsupported(f"{CK}: fn {self.ent['fn']}" + (f", line {ln}" if ln else "") + f": unsupported (encoder mode): {what}")

    def newvar(self, rust):
        self.nv += 1; n = f"v{self.nv}"; self.namemap.append(f"{n}={rust}"); return n
    def tmp(self):
        self.nt += 1; return f"t{self.nt}"
    def unp(self, e):
        while isinstance(e, tuple) and e and e[0] == "paren": e = e[1]
        return e

    # ---- expressions: (atom, type); monadic steps appended to ops as text lines
    def ex(self, e, env, ops):
        e = self.unp(e); k = e[0]
        if k == "num":
            if e[2] not in (None, "u64", "usize"): self.fail(f"literal suffix {e[2]}")
            return str(e[1]), "nat"
        if k == "path":
            if len(e[1]) != 1: self.fail(f"path {'::'.join(e[1])}")
            n = e[1][0]
            if n == "__two64": return "__two64", "two64"
            if n not in env: self.fail(f"unknown identifier `{n}`")
            return env[n]
        if k == "ref": return self.ex(e[2], env, ops)
        if k == "un" and e[1] == "!":
            a, t = self.ex(e[2], env, ops); return f"(¬ {self.prop(a, t)})", "prop"
        if k == "bin": return self.binop(e, env, ops)
        if k == "cast":
            a, t = self.ex(e[1], env, ops)
            if e[2] != ("name", "u64") and e[2] != ("name", "usize"): self.fail(f"cast to {e[2]}")
            if t == "nat": return a, "nat"
            if t == "int": return f"(fToU64 {a})", "nat"
            if t == "i64": return f"(GenW.asU64 {a})", "nat"
            self.fail(f"cast of a {t}")
        if k == "index":
            b, bt = self.ex(e[1], env, ops); i, it = self.ex(e[2], env, ops)
            if it != "nat": self.fail(f"index of type {it}")
            f = {"list": ("idx", "nat"), "ilist": ("idxI", "int"), "modlist": ("idxT", "mod")}.get(bt)
            if f is None: self.fail(f"indexing a {bt}")
            t = self.tmp(); ops.append(f"let {t} ← {f[0]} {b} {i}"); return t, f[1]
        if k == "array":
            if len(e[1]) != 2: self.fail("array literal that is not a pair of words")
            xs = [self.ex(x, env, ops) for x in e[1]]
            if any(t != "nat" for _, t in xs): self.fail("array literal of non-words")
            return (xs[0][0], xs[1][0]), "pair"
        if k == "vecrep":
            a, t = self.ex(e[1], env, ops); n, nt = self.ex(e[2], env, ops)
            if t != "nat" or nt != "nat": self.fail("vec![v; n] of non-words")
            return f"(List.replicate {n} {a})", "list"
        if k == "mcall":
            r, rt = self.ex(e[1], env, ops); m = e[2]; args = e[3]
            if m == "len" and not args and rt in ("list", "modlist", "ilist"): return f"{r}.length", "nat"
            if m == "abs" and not args and rt == "int": return f"(fabs {r})", "int"
            if m == "unsigned_abs" and not args and rt == "i64": return f"(Int.natAbs {r})", "nat"
            if m == "reduce" and len(args) == 1 and rt == "mod":
                a, t = self.ex(args[0], env, ops)
                if t != "nat": self.fail(f"Modulus::reduce of a {t}")
                v = self.tmp(); ops.append(f"let {v} ← GenP.mod_reduce {r} {a}"); return v, "nat"
            self.fail(f"method {m}() on a {rt}")
        if k == "call":
            name = "::".join(e[1])
            if name == "util::barrett_reduce_u128" and len(e[2]) == 2:
                p, pt = self.ex(e[2][0], env, ops); m, mt = self.ex(e[2][1], env, ops)
                if pt != "pair" or mt != "mod": self.fail(f"barrett_reduce_u128({pt}, {mt})")
                v = self.tmp(); ops.append(f"let {v} ← GenW.barrett_reduce_u128 {p[0]} {p[1]} {m}"); return v, "nat"
            if name in ("__decompose", "__ntt_p"):
                if name not in env: self.fail(f"{name} is not an input of this function")
                xs = [self.ex(x, env, ops) for x in e[2]]
                want = ["list"] if name == "__decompose" else ["list", "nat"]
                if [t for _, t in xs] != want: self.fail(f"{name} applied to {[t for _, t in xs]}")
                v = self.tmp(); ops.append(f"let {v} ← {env[name][0]} " + " ".join(a for a, _ in xs)); return v, "list"
            if name not in CALLS: self.fail(f"call to {name}")
            lean, tys, rty, mon = CALLS[name]
            xs = [self.ex(x, env, ops) for x in e[2]]
            if [t for _, t in xs] != tys: self.fail(f"{name} applied to {[t for _, t in xs]}")
            app = lean + " " + " ".join(a for a, _ in xs)
            if not mon: return f"({app})", rty
            v = self.tmp(); ops.append(f"let {v} ← {app}"); return v, rty
        self.fail(f"expression {k}")

    def prop(self, a, t):
        if t == "prop": return a
        if t == "bool": return f"({a} = true)"
        self.fail(f"a {t} used as a condition")

    def binop(self, e, env, ops):
        op = e[1]; le, re_ = self.unp(e[2]), self.unp(e[3])
        if op in ("<", ">", "<=", ">=", "==", "!="):
            if re_[0] == "float":
                a, t = self.ex(le, env, ops)
                if t != "int": self.fail(f"float comparison of a {t}")
                if (op, re_[1]) == ("<", "0.0"): return f"({a} < 0)", "prop"
                if (op, re_[1]) == (">=", "1.0"): return f"({a} ≥ 1)", "prop"
                self.fail(f"float comparison `{op} {re_[1]}`")
            a, t = self.ex(le, env, ops)
            if re_[0] == "num" and t == "i64": b, u = f"{re_[1]}", "i64"
            else: b, u = self.ex(re_, env, ops)
            if not (t == u and t in ("nat", "i64")): self.fail(f"comparison `{op}` on {t}, {u}")
            sym = {'<': '<', '>': '>', '<=': '≤', '>=': '≥', '==': '=', '!=': '≠'}[op]
            return f"({a} {sym} {b})", "prop"
        if op in ("&&", "||"):
            a, t = self.ex(le, env, ops); n0 = len(ops); b, u = self.ex(re_, env, ops)
            if len(ops) != n0: self.fail(f"effectful right operand of `{op}`")
            return f"({self.prop(a, t)} {'∧' if op == '&&' else '∨'} {self.prop(b, u)})", "prop"
        a, t = self.ex(le, env, ops); b, u = self.ex(re_, env, ops)
        if op in ("%", "/") and t == "int" and u == "two64": return f"({'fmod64' if op == '%' else 'fdiv64'} {a})", "int"
        if op in ("/", "%") and t == "nat" and u == "nat" and re_[0] == "num" and re_[1] != 0: return f"({a} {op} {b})", "nat"      # division by a non-zero literal
        if op in ("+", "-", "*") and t == "nat" and u == "nat":
            fn = {'+': 'ckAdd', '-': 'ckSub', '*': 'ckMul'}[op]
            v = self.tmp(); ops.append(f"let {v} ← {fn} {a} {b}"); return v, "nat"
        self.fail(f"`{op}` on {t}, {u}")

    # ---- statements
    def assigned(self, x, acc):
        """rust names assigned (as a whole or by element) inside the AST fragment x, in order of first occurrence"""
        if isinstance(x, list):
            for y in x: self.assigned(y, acc)
        elif isinstance(x, tuple) and x:
            if x[0] == "assign":
                r = self.unp(x[1])
                while r[0] == "index": r = self.unp(r[1])
                if r[0] != "path" or len(r[1]) != 1: self.fail("assignment target")
                if r[1][0] not in acc: acc.append(r[1][0])
            for y in x:
                if isinstance(y, (tuple, list)): self.assigned(y, acc)
        return acc

    def state(self, body, env):
        names = [n for n in self.assigned(body, []) if n in env]
        return names

    def tup(self, xs): return xs[0] if len(xs) == 1 else "(" + ", ".join(xs) + ")"

    def only_panic(self, blk):
        return blk[1] is None and len(blk[0]) == 1 and blk[0][0][0] == "expr" and self.unp(blk[0][0][1]) == ("panic",)

    def block(self, blk, env, d, result):
        """lines of a do-block at depth d: the statements, then `pure <result>` (result: list of rust names, or a literal text)"""
        stmts, tail = blk
        if tail is not None: stmts = stmts + [("expr", tail, None)]
        env = dict(env); lines = []
        P = "  " * d
        for s in stmts:
            ln = s[-1] if isinstance(s[-1], int) else None
            ops = []
            if s[0] == "let":
                if not isinstance(s[1], str): self.fail("pattern in let", ln)
                if s[4] is None: self.fail("let without initialiser", ln)
                a, t = self.ex(s[4], env, ops)
                lines += [P + o for o in ops]
                if t == "pair": env[s[1]] = (a, t); continue
                if t == "prop": a, t = f"decide {a}", "bool"
                if t not in LEANTY: self.fail(f"let of a {t}", ln)
                v = self.newvar(s[1]); lines.append(P + f"let {v} : {LEANTY[t]} := {a}"); env[s[1]] = (v, t)
            elif s[0] == "assign":
                lhs = self.unp(s[1]); op = s[2]
                if lhs[0] == "path":
                    n = lhs[1][0]
                    if n not in env: self.fail(f"assignment to unknown `{n}`", ln)
                    v, t = env[n]
                    rhs = s[3] if op is None else ("bin", op, s[1], s[3])
                    a, u = self.ex(rhs, env, ops)
                    if u != t: self.fail(f"assignment of a {u} to a {t}", ln)
                    lines += [P + o for o in ops]; lines.append(P + f"let {v} : {LEANTY[t]} := {a}")
                elif lhs[0] == "index" and op is None:
                    b = self.unp(lhs[1])
                    if b[0] != "path" or b[1][0] not in env or env[b[1][0]][1] != "list": self.fail("element assignment to something that is not a word buffer", ln)
                    v = env[b[1][0]][0]
                    i, it = self.ex(lhs[2], env, ops); a, u = self.ex(s[3], env, ops)
                    if it != "nat" or u != "nat": self.fail(f"element assignment [{it}] = {u}", ln)
                    lines += [P + o for o in ops]; lines.append(P + f"let {v} ← setIdx {v} {i} {a}")
                else: self.fail("assignment form", ln)
            elif s[0] == "expr":
                e = self.unp(s[1])
                if e == ("panic",): lines.append(P + ".error .refused"); return lines      # the rest of the block is unreachable
                if e[0] != "if": self.fail(f"expression statement {e[0]}", ln)
                c, ct = self.ex(e[1], env, ops); c = self.prop(c, ct)
                lines += [P + o for o in ops]
                if e[3] is None and self.only_panic(e[2]):
                    lines.append(P + f"if {c} then .error .refused else"); continue
                if e[3] is None: self.fail("`if` without `else` that is not a guard", ln)
                els = e[3]
                names = self.state([e[2], els], env)
                if not names: self.fail("`if` statement without effect", ln)
                lhs = self.tup([env[n][0] for n in names])
                lines.append(P + f"let {lhs} ← (if {c} then (do")
                lines += self.block(e[2], env, d + 2, names)
                lines.append(P + "  ) else (do")
                eb = els if not (isinstance(els, tuple) and els and els[0] == "if") else ([("expr", els, None)], None)
                lines += self.block(eb, env, d + 2, names)
                lines.append(P + f"  ) : R ({' × '.join(LEANTY[env[n][1]] for n in names)}))")
            elif s[0] == "for":
                if not isinstance(s[1], str): self.fail("`for` pattern", ln)
                it = self.unp(s[2])
                if it[0] != "range" or it[1] is None or it[2] is None or it[3]: self.fail("`for` iterator that is not `lo..hi`", ln)
                lo, lt = self.ex(it[1], env, ops); hi, ht = self.ex(it[2], env, ops)
                if lt != "nat" or ht != "nat": self.fail("range bounds", ln)
                lines += [P + o for o in ops]
                names = self.state(s[3], env)
                if not names: self.fail("`for` loop without effect", ln)
                st = self.tup([env[n][0] for n in names])
                iv = self.newvar(s[1]); env2 = dict(env); env2[s[1]] = (iv, "nat")
                lines.append(P + f"let {st} ← forRange {lo} {hi} {st} (fun {iv} {st} => do")
                lines += self.block(s[3], env2, d + 2, names)
                lines.append(P + "  )")
            elif s[0] == "while":
                names = self.state(s[2], env)
                if not names: self.fail("`while` loop without effect", ln)
                st = self.tup([env[n][0] for n in names])
                c, ct = self.ex(s[1], env, ops)
                if ops: self.fail("effectful `while` condition", ln)
                if "fuel" not in self.ent: self.fail("`while` loop without a fuel entry", ln)
                cvars = [n for n in names if env[n][1] == "int"]
                if len(cvars) != 1: self.fail("`while` loop: the fuel entry needs exactly one float variable in the state", ln)
                fuel = self.ent["fuel"].format(v=env[cvars[0]][0])
                lines.append(P + f"let {st} ← whileFuel (fun {st} => decide {self.prop(c, ct)}) (fun {st} => do")
                lines += self.block(s[2], env, d + 2, names)
                lines.append(P + f"  ) ({fuel}) {st}")
            else: self.fail(f"statement {s[0]}", ln)
        lines.append(P + "pure " + (self.tup([env[n][0] for n in result]) if isinstance(result, list) else result))
        return lines

    def translate(self):
        ent = self.ent
        env = {}; binders = []
        for n, t in ent["inputs"]:
            lean = n.strip("_") if n.startswith("__") else n
            lean = {"decompose": "decompose", "ntt_p": "nttP"}.get(lean, lean)
            env[n] = (lean, t); binders.append(f"({lean} : {LEANTY[t]})")
        lines = self.block(self.fn["body"], env, 1, ["dest"])
        doc = (f"/-- `{ent['fn']}`  {CK}:{self.l0}-{self.l1}  sha256/64(normalised source) = {self.h}\n    names: " + " ".join(self.namemap) +
               f"\n    model: {ent['model']} -/")
        return doc + f"\ndef {ent['lean']} " + " ".join(binders) + " : R (List Nat) := do\n" + "\n".join(lines) + "\n"


def generate(T, tr, spec):
    return Gen(T, tr, spec).generate()
