"""Translator phase 4h ("app mode"): the index / block-size arithmetic of the application layer (src/app/**, src/batch_encoder.rs).
Output: Gen/AppFns.lean (`HC.GenApp`).  Uses the tokenizer / parser of rs2lean.py (passed in as T); the LOWERING is this file's own and
deliberately small: `usize` arithmetic (overflow-checked), `Vec<usize>` as `List Nat`, `for` over ranges (forward, reversed, inclusive)
with `continue` / `break`, `while` (with fuel), `match` on a registered enum, struct results.  Loops are NOT unrolled into auxiliary
recursive definitions: they are applications of the prelude combinators `forUp` / `forDown` / `whileFuel` to a body function that
returns `Ctl.next state` (fall through / `continue`) or `Ctl.brk state` (`break`).  State of a loop = the variables declared outside
the loop that its body assigns (in declaration order).  Everything that is not listed in TRANSLATOR.md / notes (phase 4h) raises
`Unsupported` naming file, function, line and construct: the translator never guesses.

Names are positional (parameters a0.., locals v1.., temporaries t1..): renaming a local changes only the doc comment."""
import re, os, hashlib

USIZE_MAX = 18446744073709551615
NAT_TYPES = ("usize", "u64")      # 64-bit words only: the checked operations test against 2^64 (u32 arithmetic would need its own bound: refused)

PRELUDE = """/-- what the body of a loop tells the loop: go on with the next iteration (fall through, `continue`) or leave (`break`) -/
inductive Ctl (σ : Type) where
  | next : σ → Ctl σ
  | brk : σ → Ctl σ

/-- `for i in lo..lo+count { body }` -/
def forUp {σ : Type} : Nat → Nat → σ → (Nat → σ → R (Ctl σ)) → R σ
  | _, 0, s, _ => pure s
  | lo, k+1, s, f =>
    match f lo s with
    | .error e => .error e
    | .ok (.next s') => forUp (lo+1) k s' f
    | .ok (.brk s') => pure s'

/-- `for i in (lo..lo+count).rev() { body }` -/
def forDown {σ : Type} : Nat → Nat → σ → (Nat → σ → R (Ctl σ)) → R σ
  | _, 0, s, _ => pure s
  | lo, k+1, s, f =>
    match f (lo+k) s with
    | .error e => .error e
    | .ok (.next s') => forDown lo k s' f
    | .ok (.brk s') => pure s'

/-- `while c { body }` / `loop { body }` with fuel (table entry); exhaustion is `.error .other` -/
def whileFuel {σ : Type} : Nat → σ → (σ → R (Ctl σ)) → R σ
  | 0, _, _ => .error .other
  | fuel+1, s, f =>
    match f s with
    | .error e => .error e
    | .ok (.next s') => whileFuel fuel s' f
    | .ok (.brk s') => pure s'

/-- `a / b`, `a % b` on machine words: a zero divisor panics -/
def ckDiv (a b : Nat) : R Nat := if b = 0 then .error .other else .ok (a / b)
def ckMod (a b : Nat) : R Nat := if b = 0 then .error .other else .ok (a % b)
/-- `a.pow(e)` (overflow-checked) -/
def ckPow (a e : Nat) : R Nat := if a ^ e < B64 then .ok (a ^ e) else .error .overflow
/-- `x >> v` / `x << v` by a variable amount (an amount `>= 64` panics with overflow checks) -/
def ckShr (x v : Nat) : R Nat := if v < 64 then .ok (x >>> v) else .error .overflow
def ckShl (x v : Nat) : R Nat := if v < 64 then .ok ((x <<< v) % B64) else .error .overflow
/-- `l[i]` / `l[i] = v` on a `Vec<usize>` -/
def idx (l : List Nat) (i : Nat) : R Nat := match l[i]? with | some x => .ok x | none => .error .oob
def setIdx (l : List Nat) (i v : Nat) : R (List Nat) := if i < l.length then .ok (l.set i v) else .error .oob
/-- `reverse_bits_u64(x, k)` reads: bit reversal of the low `k` bits (TRUSTED primitive, = `HC.brev` of the model) -/
def revBitsK : Nat → Nat → Nat
  | 0, _ => 0
  | k+1, x => (x % 2) * 2^k + revBitsK k (x / 2)
"""


def canon(e):
    """canonical source text of an expression (table keys: abstracted expressions, effects, fragment starts)"""
    k = e[0]
    if k == "num": return str(e[1]) + (e[2] or "")
    if k == "float": return e[1]
    if k == "bool": return "true" if e[1] else "false"
    if k == "path": return "::".join(e[1])
    if k == "paren": return "(" + canon(e[1]) + ")"
    if k == "cast": return canon(e[1]) + " as " + (e[2][1] if e[2][0] == "name" else "<ty>")
    if k == "bin": return canon(e[2]) + " " + e[1] + " " + canon(e[3])
    if k == "un": return e[1] + canon(e[2])
    if k == "deref": return "*" + canon(e[1])
    if k == "ref": return ("&mut " if e[1] else "&") + canon(e[2])
    if k == "field": return canon(e[1]) + "." + e[2]
    if k == "mcall": return canon(e[1]) + "." + e[2] + "(" + ", ".join(canon(a) for a in e[3]) + ")"
    if k == "call": return "::".join(e[1]) + "(" + ", ".join(canon(a) for a in e[2]) + ")"
    if k == "index": return canon(e[1]) + "[" + canon(e[2]) + "]"
    if k == "vecrep": return "vec![" + canon(e[1]) + "; " + canon(e[2]) + "]"
    if k == "vec": return "vec![" + ", ".join(canon(a) for a in e[1]) + "]"
    if k == "tuple": return "(" + ", ".join(canon(a) for a in e[1]) + ")"
    if k == "unsafeexpr" and not e[1][0] and e[1][1] is not None: return "unsafe {" + canon(e[1][1]) + "}"
    return "<" + k + ">"


def scanon(s):
    """canonical text of a simple statement (`let`, expression statement, assignment); None for anything else"""
    if s[0] == "let" and isinstance(s[1], str): return "let " + ("mut " if s[2] else "") + s[1] + (" = " + canon(s[4]) if s[4] is not None else "")
    if s[0] == "expr": return canon(s[1])
    if s[0] == "assign": return canon(s[1]) + " " + (s[2] or "") + "= " + canon(s[3])
    return None


def tup(names):
    names = list(names)
    if not names: return "()"
    if len(names) == 1: return names[0]
    return "(" + ", ".join(names) + ")"


def atom(t):
    t = t.strip()
    if re.fullmatch(r"[A-Za-z0-9_.']+", t): return t
    if t.startswith("(") and t.endswith(")"):
        d = 0
        for i, ch in enumerate(t):
            if ch == "(": d += 1
            elif ch == ")":
                d -= 1
                if d == 0 and i != len(t) - 1: break
        else: return t
    return "(" + t + ")"


class Var:
    def __init__(self, lean, ty, mut, rust):
        self.lean, self.ty, self.mut, self.rust = lean, ty, mut, rust


class Lower:
    def __init__(self, G, fn, ent):
        self.G, self.T, self.fn, self.ent = G, G.T, fn, ent
        self.name = ent["lean"]
        self.nv = self.nt = self.nloop = 0
        self.scopes = [{}]
        self.namemap = []
        self.abs = list(ent.get("abstract", []))
        self.abs_used = set()
        self.loops = []        # stack of state tuples (text) of the enclosing loops
        self.ltypes = {}       # Lean name -> Lean type (everything that may be captured by a loop body)
        self.aux = []          # auxiliary definitions (loop bodies), innermost first
        for text, binder, ty in self.abs: self.ltypes[binder] = ty
        self.assert_kind = ent.get("assert_kind", "refused")
        self.fuels = list(ent.get("fuels", []))
        self.eff_used = set()
        self.param_rust_ty = {pn: pt[1] for pn, pt, _ in fn["params"] if pn != "self" and pt[0] == "name"}

    # ---- diagnostics
    def fail(self, what, ln=None):
        raise self.T.Unsupported(f"{self.fn['file']}: fn {self.fn['name']}" + (f", line {ln}" if ln else "") + f": unsupported (app mode): {what}")

    # ---- types
    def rty(self, t, what):
        """Rust type (parser AST) -> internal type"""
        if t[0] == "name":
            n = t[1]
            if n in NAT_TYPES: return "nat"
            if n == "bool": return "bool"
            if n == "Self" and self.fn["selfty"]: n = self.fn["selfty"]
            if n in self.G.enums: return ("enum", n)
            if n in self.G.structs: return ("struct", n)
            self.fail(f"type `{n}` ({what})")
        if t[0] == "vec" and t[1] == ("name", "usize"): return ("list", "nat")
        if t[0] == "ref" and not t[1]:
            inner = t[2]
            if inner[0] == "arr" and inner[1] == ("name", "usize") and inner[2] is None: return ("list", "nat")
            if inner[0] == "name" and inner[1] in self.G.structs: return ("struct", inner[1])
        if t[0] == "tuple" and not t[1]: return "unit"
        self.fail(f"type {t!r} ({what})")

    def lty(self, ty):
        if ty == "nat": return "Nat"
        if ty == "bool": return "Bool"
        if ty == "unit": return "Unit"
        if ty[0] == "enum": return self.G.enums[ty[1]]["model"]
        if ty[0] == "struct": return ty[1]
        if ty[0] == "list": return "List Nat"
        raise AssertionError(ty)

    # ---- environment
    def lookup(self, name, ln=None):
        for sc in reversed(self.scopes):
            if name in sc: return sc[name]
        self.fail(f"unknown identifier `{name}`", ln)

    def declare(self, rust, ty, mut, prefix="v"):
        if prefix == "v": self.nv += 1; lean = f"v{self.nv}"
        else: lean = prefix
        self.namemap.append(f"{lean}={rust}")
        v = Var(lean, ty, mut, rust); self.scopes[-1][rust] = v
        self.ltypes[lean] = self.lty(ty)
        return v

    def tmp(self, ty="nat"):
        self.nt += 1; self.ltypes[f"t{self.nt}"] = self.lty(ty); return f"t{self.nt}"

    def captured(self, lines, bound, known):
        """Lean names of the enclosing function that the rendered lines mention (parameters, locals, temporaries, abstract inputs), in
        a fixed order: parameters, abstract inputs, locals, temporaries (each by number)"""
        used = set()
        for l in lines: used |= set(re.findall(r"(?<![A-Za-z0-9_.'])([A-Za-z_][A-Za-z0-9_']*)", l))
        cands = [n for n in known if n in used and n not in bound]
        def key(n):
            m = re.fullmatch(r"([avt])(\d+)", n)
            if m: return ({"a": 0, "v": 2, "t": 3}[m.group(1)], int(m.group(2)))
            return (1, [b for _, b, _ in self.abs].index(n))
        return sorted(cands, key=key)

    def aux_loop(self, kind, ln, lines, head_bound, pat, M, lamhead, known):
        """emit the body of a loop as a definition of its own; returns the term to pass to the loop combinator"""
        self.nloop += 1
        name = f"{self.name}_loop{self.nloop}"
        caps = self.captured(lines, set(head_bound), known)
        sty = " × ".join(self.ltypes[m] if " " not in self.ltypes[m] else f"({self.ltypes[m]})" for m in M) if M else "Unit"
        sty_a = atom(sty)
        binders = " ".join(f"({c} : {self.ltypes[c]})" for c in caps)
        ity = "Nat → " if kind == "for" else ""
        doc = f"/-- body of the `{kind}` loop at line {ln} of `{self.fn['name']}` ({self.fn['file']}); captured variables first -/"
        self.aux.append("\n".join([doc, f"def {name} {binders} : {ity}{sty_a} → R (Ctl {sty_a}) :=".replace("  :", " :"), f"  {lamhead} => do"] + lines))
        return f"({name} " + " ".join(caps) + ")" if caps else name

    # ---- canonical text of an expression (for the table of abstracted float expressions)
    def canon(self, e): return canon(e)

    def uses_names(self, e, acc):
        if isinstance(e, tuple):
            if e and e[0] == "path" and len(e[1]) == 1: acc.add(e[1][0])
            for x in e: self.uses_names(x, acc)
        elif isinstance(e, list):
            for x in e: self.uses_names(x, acc)
        return acc

    # ---- assigned variables of a block (declared outside it), in declaration order
    def assigned(self, block):
        acc = []
        def root(e):
            while e[0] in ("index", "field", "paren"): e = e[1]
            return e[1][0] if e[0] == "path" and len(e[1]) == 1 else None
        def walk_expr(e, decl):
            if not isinstance(e, tuple) or not e: return
            k = e[0]
            if k == "if":
                walk_block(e[2], set(decl))
                if e[3] is not None: walk_block(e[3], set(decl))
            elif k == "blockexpr": walk_block(e[1], set(decl))
            elif k == "match":
                for pats, body in e[2]: walk_expr(body, set(decl))
            elif k == "mcall" and e[2] in ("push",):
                r = root(e[1])
                if r is not None and r not in decl and r not in acc: acc.append(r)
        def walk_block(b, decl):
            stmts, tail = b
            for s in stmts:
                k = s[0]
                if k == "let":
                    if s[4] is not None: walk_expr(s[4], decl)
                    if isinstance(s[1], str): decl.add(s[1])
                    else:
                        for n in s[1][1]: decl.add(n)
                elif k == "assign":
                    r = root(s[1])
                    if r is None: self.fail("assignment to a place that is not a variable / element of a variable", s[-1])
                    if r not in decl and r not in acc: acc.append(r)
                elif k == "expr": walk_expr(s[1], decl)
                elif k == "for":
                    d2 = set(decl)
                    if isinstance(s[1], str): d2.add(s[1])
                    walk_block(s[3], d2)
                elif k == "while": walk_block(s[2], set(decl))
                elif k == "loop": walk_block(s[1], set(decl))
            if tail is not None: walk_expr(tail, decl)
        walk_block(block, set())
        vs = []
        for r in acc:
            v = self.lookup(r)
            if not v.mut: self.fail(f"assignment to immutable `{r}`")
            vs.append(v)
        vs.sort(key=lambda v: (0, int(v.lean[1:])) if re.fullmatch(r"v\d+", v.lean) else (-1, 0))
        return [v.lean for v in vs]

    def escapes(self, b):
        """does the block contain a `continue` / `break` of the ENCLOSING loop (not of a loop nested in it)?"""
        def ex(e):
            if not isinstance(e, tuple) or not e: return False
            if e[0] == "if": return blk(e[2]) or (e[3] is not None and blk(e[3]))
            if e[0] == "blockexpr": return blk(e[1])
            if e[0] == "match": return any(ex(body) for _, body in e[2])
            return False
        def blk(b):
            stmts, tail = b
            for s in stmts:
                if s[0] in ("continue", "break"): return True
                if s[0] == "return": return True
                if s[0] == "expr" and ex(s[1]): return True
                if s[0] == "let" and s[4] is not None and ex(s[4]): return True
            return tail is not None and ex(tail)
        return blk(b)

    # ---- expressions: returns (lines, term, type)
    def expr(self, e, ln=None):
        k = e[0]
        # abstracted (float) expressions: inputs of the generated function
        if k in ("mcall", "cast", "paren", "call"):
            c = self.canon(e)
            for i, (text, binder, ty) in enumerate(self.abs):
                if c == text:
                    self.abs_used.add(i)
                    for n in self.uses_names(e, set()):
                        if n in ("usize", "f64", "u32") or n in self.ent.get("opaque", []): continue
                        v = self.lookup(n, ln)
                        if v.mut or not v.lean.startswith("a"): self.fail(f"abstracted expression `{text}` mentions `{n}`, which is not an immutable parameter", ln)
                    return [], binder, "nat"
        if k == "num":
            if e[2] not in (None,) + NAT_TYPES: self.fail(f"literal suffix {e[2]}", ln)
            return [], str(e[1]), "nat"
        if k == "float": self.fail(f"float literal {e[1]} outside an abstracted expression", ln)
        if k == "bool": return [], ("true" if e[1] else "false"), "bool"
        if k == "paren":
            ls, t, ty = self.expr(e[1], ln); return ls, t, ty
        if k == "path":
            segs = e[1]
            if len(segs) == 1:
                if segs[0] in self.G.consts and not any(segs[0] in sc for sc in self.scopes): return [], str(self.G.consts[segs[0]]), "nat"
                v = self.lookup(segs[0], ln); return [], v.lean, v.ty
            if segs == ["usize", "MAX"]: return [], str(USIZE_MAX), "nat"
            if len(segs) == 2 and segs[0] in self.G.enums:
                en = self.G.enums[segs[0]]
                if segs[1] not in en["variants"]: self.fail(f"unknown variant {'::'.join(segs)}", ln)
                return [], f"({en['model']}.{en['variants'][segs[1]]})", ("enum", segs[0])
            if segs[-1] in self.G.consts: return [], str(self.G.consts[segs[-1]]), "nat"
            self.fail(f"path `{'::'.join(segs)}`", ln)
        if k == "field":
            ls, t, ty = self.expr(e[1], ln)
            if not (isinstance(ty, tuple) and ty[0] == "struct"): self.fail(f"field `{e[2]}` of a non-struct", ln)
            for f, fty in self.G.structs[ty[1]]["fields"]:
                if f == e[2]: return ls, f"{atom(t)}.{f}", fty
            self.fail(f"struct {ty[1]} has no field `{e[2]}`", ln)
        if k == "cast":
            ls, t, ty = self.expr(e[1], ln)
            if ty == "nat" and e[2][0] == "name" and e[2][1] in ("usize", "u64"): return ls, t, "nat"
            self.fail(f"cast `{canon(e)}`", ln)
        if k == "un":
            if e[1] == "!":
                ls, t, ty = self.expr(e[2], ln)
                if ty == "prop": return ls, f"¬ {atom(t)}", "prop"
                if ty == "bool": return ls, f"¬ ({t} = true)", "prop"
            self.fail(f"unary `{e[1]}`", ln)
        if k == "bin":
            op = e[1]
            l1, a, ta = self.expr(e[2], ln)
            if op in ("&&", "||"):
                l2, b, tb = self.expr(e[3], ln)
                if l2: self.fail(f"`{op}` with an effectful right operand", ln)
                return l1, f"{atom(self.prop(a, ta, ln))} {'∧' if op == '&&' else '∨'} {atom(self.prop(b, tb, ln))}", "prop"
            l2, b, tb = self.expr(e[3], ln)
            ls = l1 + l2
            if op in ("==", "!=", "<", ">", "<=", ">="):
                if ta != tb: self.fail(f"comparison of {ta} with {tb}", ln)
                if ta not in ("nat",) and not (isinstance(ta, tuple) and ta[0] == "enum" and op in ("==", "!=")): self.fail(f"comparison on {ta}", ln)
                lop = {"==": "=", "!=": "≠", "<": "<", ">": ">", "<=": "≤", ">=": "≥"}[op]
                return ls, f"{atom(a)} {lop} {atom(b)}", "prop"
            if ta != "nat" or tb != "nat": self.fail(f"`{op}` on {ta}, {tb}", ln)
            if op in ("+", "-", "*"):
                t = self.tmp(); f = {"+": "ckAdd", "-": "ckSub", "*": "ckMul"}[op]
                return ls + [f"let {t} ← {f} {atom(a)} {atom(b)}"], t, "nat"
            if op in ("/", "%"):
                if e[3][0] == "num" and e[3][1] != 0: return ls, f"{atom(a)} {op} {b}", "nat"
                t = self.tmp(); f = {"/": "ckDiv", "%": "ckMod"}[op]
                return ls + [f"let {t} ← {f} {atom(a)} {atom(b)}"], t, "nat"
            if op in (">>", "<<"):
                if e[3][0] == "num":
                    if e[3][1] >= 64: self.fail("shift by >= 64", ln)
                    return ls, (f"{atom(a)} >>> {b}" if op == ">>" else f"({atom(a)} <<< {b}) % B64"), "nat"
                t = self.tmp(); f = "ckShr" if op == ">>" else "ckShl"
                return ls + [f"let {t} ← {f} {atom(a)} {atom(b)}"], t, "nat"
            if op in ("&", "|", "^"):
                return ls, f"{atom(a)} {dict([('&', '&&&'), ('|', '|||'), ('^', '^^^')])[op]} {atom(b)}", "nat"
            self.fail(f"operator `{op}`", ln)
        if k == "mcall":
            recv, m, args = e[1], e[2], e[3]
            if m in ("min", "max") and len(args) == 1:
                l1, a, ta = self.expr(recv, ln); l2, b, tb = self.expr(args[0], ln)
                if ta != "nat" or tb != "nat": self.fail(f"`.{m}` on {ta}, {tb}", ln)
                return l1 + l2, f"{m} {atom(a)} {atom(b)}", "nat"
            if m == "pow" and len(args) == 1:
                l1, a, ta = self.expr(recv, ln); l2, b, tb = self.expr(args[0], ln)
                if ta != "nat" or tb != "nat": self.fail("`.pow` on non-words", ln)
                t = self.tmp(); return l1 + l2 + [f"let {t} ← ckPow {atom(a)} {atom(b)}"], t, "nat"
            if m == "reverse_bits" and not args:
                # only on a PARAMETER declared `u64` (all word types are Nat here; the width must be known): TRUSTED primitive
                if recv[0] == "path" and len(recv[1]) == 1 and self.param_rust_ty.get(recv[1][0]) == "u64":
                    l1, a, ta = self.expr(recv, ln); return l1, f"revBitsK 64 {atom(a)}", "nat"
                self.fail("`.reverse_bits()` on something that is not a `u64` parameter", ln)
            if m == "len" and not args:
                l1, a, ta = self.expr(recv, ln)
                if ta != ("list", "nat"): self.fail("`.len()` of a non-vector", ln)
                return l1, f"{atom(a)}.length", "nat"
            self.fail(f"method `.{m}(..)`", ln)
        if k == "call":
            segs, args = e[1], e[2]
            key = (self.fn["file"], segs[-1])
            ext = self.ent.get("calls", {}).get("::".join(segs))
            if ext is not None:
                # a TRUSTED primitive of the prelude (table key `calls`: canonical path -> (Lean function, arity))
                lf, ar = ext
                if len(args) != ar: self.fail(f"call of `{'::'.join(segs)}` with {len(args)} arguments", ln)
                ls = []; ts = []
                for a in args:
                    l, t, ty = self.expr(a, ln)
                    if ty != "nat": self.fail("argument of a primitive must be a word", ln)
                    ls += l; ts.append(atom(t))
                return ls, f"{lf} " + " ".join(ts), "nat"
            other = self.ent.get("fncalls", {}).get("::".join(segs))
            if other is not None: key = tuple(other)        # a function of another file, translated earlier (table key `fncalls`: path -> (file, fn))
            elif len(segs) != 1: key = None
            if key not in self.G.sigs: self.fail(f"call of `{'::'.join(segs)}` (not in the table)", ln)
            sig = self.G.sigs[key]
            if len(args) != len(sig["params"]): self.fail(f"call of `{segs[-1]}` with {len(args)} arguments", ln)
            ls = []; ts = []
            for a, pty in zip(args, sig["params"]):
                l, t, ty = self.expr(a, ln)
                if ty != pty: self.fail(f"argument type {ty} for parameter type {pty} of `{segs[-1]}`", ln)
                ls += l; ts.append(atom(t))
            t = self.tmp(sig["ret"])
            return ls + [f"let {t} ← {sig['lean']} " + " ".join(ts)], t, sig["ret"]
        if k == "index":
            l1, a, ta = self.expr(e[1], ln); l2, b, tb = self.expr(e[2], ln)
            if ta != ("list", "nat") or tb != "nat": self.fail("index expression", ln)
            t = self.tmp(); return l1 + l2 + [f"let {t} ← idx {atom(a)} {atom(b)}"], t, "nat"
        if k == "vec":
            if e[1]: self.fail("vec![a, b, ..]", ln)
            return [], "([] : List Nat)", ("list", "nat")
        if k == "vecrep":
            l1, a, ta = self.expr(e[1], ln); l2, b, tb = self.expr(e[2], ln)
            if ta != "nat" or tb != "nat": self.fail("vec![x; n] on non-words", ln)
            return l1 + l2, f"List.replicate {atom(b)} {atom(a)}", ("list", "nat")
        if k == "match": return self.match_value(e, ln)
        if k == "if":
            if e[3] is None: self.fail("`if` without `else` used as a value", ln)
            lc, c, cty = self.expr(e[1], ln)
            la, ta, tya = self.value_block(("blockexpr", e[2]), ln); lb, tb, tyb = self.value_block(("blockexpr", e[3]), ln)
            if tya != tyb: self.fail("`if` branches of different types", ln)
            if not la and not lb: return lc, f"if {self.prop(c, cty, ln)} then {ta} else {tb}", tya
            t = self.tmp(tya)
            ba = self.tail_opt(la + [f"pure {atom(ta)}"]); bb = self.tail_opt(lb + [f"pure {atom(tb)}"])
            out = [f"let {t} ← (if {self.prop(c, cty, ln)} then", "    (do"] + ["      " + x for x in ba[:-1]] + ["      " + ba[-1] + ")", "  else", "    (do"] \
                  + ["      " + x for x in bb[:-1]] + ["      " + bb[-1] + "))"]
            return lc + out, t, tya
        if k == "structlit": return self.structlit(e, ln)
        self.fail(f"expression `{k}`", ln)

    def prop(self, t, ty, ln):
        if ty == "prop": return t
        if ty == "bool": return f"{atom(t)} = true"
        self.fail(f"condition of type {ty}", ln)

    def match_value(self, e, ln):
        ls, s, sty = self.expr(e[1], ln)
        if not (isinstance(sty, tuple) and sty[0] == "enum"): self.fail("`match` on something that is not a registered enum", ln)
        en = self.G.enums[sty[1]]
        seen = []; arms = []; rty = None
        for pats, body in e[2]:
            for p in pats:
                if p[0] != "path" or len(p[1]) != 2 or p[1][0] != sty[1] or p[1][1] not in en["variants"]:
                    self.fail(f"match pattern {p!r} (only `{sty[1]}::Variant`)", ln)
                if p[1][1] in seen: self.fail("duplicate match pattern", ln)
                seen.append(p[1][1])
            blines, bt, bty = self.value_block(body, ln)
            if rty is None: rty = bty
            elif rty != bty: self.fail("match arms of different types", ln)
            arms.append((" | ".join("." + en["variants"][p[1][1]] for p in pats), blines, bt))
        if sorted(seen) != sorted(en["variants"]): self.fail("non-exhaustive match (or `_` arm)", ln)
        t = self.tmp()
        out = [f"let {t} ← (match {s} with"]
        for i, (pat, blines, bt) in enumerate(arms):
            last = ")" if i == len(arms) - 1 else ""
            body = blines + [f"pure {atom(bt)}"]
            body = self.tail_opt(body)
            out.append(f"    | {pat} => (do")
            out += ["        " + b for b in body[:-1]] + ["        " + body[-1] + ")" + last]
        return ls + out, t, rty

    def value_block(self, body, ln):
        """an expression or `{ stmts; tail }` used as a value (only `let`s in front of the tail)"""
        if body[0] != "blockexpr": return self.expr(body, ln)
        stmts, tail = body[1]
        if tail is None: self.fail("block without a value", ln)
        self.scopes.append({})
        ls = []
        for s in stmts:
            if s[0] != "let" or not isinstance(s[1], str) or s[4] is None or s[2]: self.fail("value block: only immutable `let`s before the value", s[-1])
            l, t, ty = self.expr(s[4], s[-1]); v = self.declare(s[1], ty, False)
            ls += l + [f"let {v.lean} := {t}"]
        l, t, ty = self.expr(tail, ln)
        self.scopes.pop()
        return ls + l, t, ty

    def tail_opt(self, body):
        """`let t ← X; pure t` => `X`"""
        if len(body) >= 2:
            m = re.fullmatch(r"let (t\d+) ← (.*)", body[-2])
            if m and body[-1] == f"pure {m.group(1)}" and not m.group(2).startswith("(match"):
                return body[:-2] + [m.group(2)]
        return body

    def structlit(self, e, ln):
        name = e[1]
        if name == "Self": name = self.fn["selfty"]
        if name not in self.G.structs: self.fail(f"struct literal of unregistered `{name}`", ln)
        sd = self.G.structs[name]["fields"]
        if sorted(f for f, _ in e[2]) != sorted(f for f, _ in sd): self.fail(f"struct literal `{name}`: field set differs from the definition", ln)
        ls = []; parts = []
        for f, fe in e[2]:
            l, t, ty = self.expr(fe, ln)
            want = dict(sd)[f]
            if ty != want: self.fail(f"field `{f}`: {ty} where {want} is declared", ln)
            ls += l; parts.append(f"{f} := {t}")
        return ls, "{ " + ", ".join(parts) + f" : {name} }}", ("struct", name)

    # ---- statements (continuation passing: `k(ind)` renders what happens after the statements)
    def block(self, b, k, ind, scoped=True):
        stmts, tail = b
        if tail is not None: stmts = list(stmts) + [("expr", tail, None)]
        if scoped: self.scopes.append({})
        depth = len(self.scopes)
        def k2(ind2):
            # the continuation runs in the OUTER scope
            saved = self.scopes[depth - 1:] if scoped else []
            if scoped: del self.scopes[depth - 1:]
            r = k(ind2)
            if scoped: self.scopes.extend(saved)
            return r
        out = self.stmts(stmts, 0, k2, ind)
        if scoped: del self.scopes[depth - 1:]
        return out

    def I(self, ind, lines): return [("  " * ind) + l for l in lines]

    def stmts(self, ss, i, k, ind):
        if i == len(ss): return k(ind)
        s = ss[i]; kind = s[0]; ln = s[-1] if (s[-1] is None or isinstance(s[-1], int)) else None
        rest = lambda ind2: self.stmts(ss, i + 1, k, ind2)
        if kind == "let":
            if not isinstance(s[1], str): self.fail("tuple pattern", ln)
            if s[4] is None: self.fail("`let` without initialiser", ln)
            ls, t, ty = self.expr(s[4], ln)
            if s[3] is not None:
                dty = self.rty(s[3], f"let {s[1]}")
                if dty != ty: self.fail(f"`let {s[1]}`: declared {dty}, initialiser {ty}", ln)
            if ty == "prop": t, ty = f"decide ({t})", "bool"
            v = self.declare(s[1], ty, s[2])
            return self.I(ind, ls + [f"let {v.lean} := {t}"]) + rest(ind)
        if kind == "assign":
            tgt, op, rhs = s[1], s[2], s[3]
            if tgt[0] == "path" and len(tgt[1]) == 1:
                v = self.lookup(tgt[1][0], ln)
                if not v.mut: self.fail(f"assignment to immutable `{v.rust}`", ln)
                e = rhs if op is None else ("bin", op, tgt, rhs)
                ls, t, ty = self.expr(e, ln)
                if ty != v.ty: self.fail(f"assignment of {ty} to `{v.rust}` : {v.ty}", ln)
                return self.I(ind, ls + [f"let {v.lean} := {t}"]) + rest(ind)
            if tgt[0] == "index" and tgt[1][0] == "path" and len(tgt[1][1]) == 1:
                v = self.lookup(tgt[1][1][0], ln)
                if not v.mut or v.ty != ("list", "nat"): self.fail("element assignment to something that is not a mutable vector", ln)
                if op is not None: self.fail("compound assignment to a vector element (operand order: right operand first)", ln)
                e = rhs
                l1, t, ty = self.expr(e, ln)                      # value first, then the place (as in Rust)
                l2, ix, ity = self.expr(tgt[2], ln)
                if ty != "nat" or ity != "nat": self.fail("element assignment of a non-word", ln)
                return self.I(ind, l1 + l2 + [f"let {v.lean} ← setIdx {v.lean} {atom(ix)} {atom(t)}"]) + rest(ind)
            self.fail("assignment target", ln)
        if kind == "continue":
            if not self.loops: self.fail("`continue` outside a loop", ln)
            if i != len(ss) - 1: self.fail("statements after `continue`", ln)
            return self.I(ind, [f"pure (Ctl.next {self.loops[-1]})"])
        if kind == "break":
            if not self.loops: self.fail("`break` outside a loop", ln)
            if i != len(ss) - 1: self.fail("statements after `break`", ln)
            return self.I(ind, [f"pure (Ctl.brk {self.loops[-1]})"])
        if kind == "return": self.fail("`return`", ln)
        if kind == "for": return self.for_loop(s, rest, ind)
        if kind == "while": return self.while_loop(s, rest, ind)
        if kind == "expr":
            e = s[1]
            if e[0] == "assert":
                ls, c, ty = self.expr(e[1], ln)
                return self.I(ind, ls + [f"if {self.prop(c, ty, ln)} then"]) + rest(ind + 1) + self.I(ind, ["else", f"  .error .{self.assert_kind}"])
            if e[0] == "if": return self.if_stmt(e, rest, ind, ln)
            if e[0] == "mcall" and e[2] == "push" and len(e[3]) == 1 and e[1][0] == "path" and len(e[1][1]) == 1:
                v = self.lookup(e[1][1][0], ln)
                if not v.mut or v.ty != ("list", "nat"): self.fail("`.push` on something that is not a mutable Vec<usize>", ln)
                ls, t, ty = self.expr(e[3][0], ln)
                if ty != "nat": self.fail("`.push` of a non-word", ln)
                return self.I(ind, ls + [f"let {v.lean} := {v.lean} ++ [{t}]"]) + rest(ind)
            self.fail(f"expression statement `{e[0]}`", ln)
        if kind == "fnvalue":
            # value of the function body (tail position); an `if .. else ..` here is a tail-`if` whose branches are values again
            e = s[1]
            if i != len(ss) - 1: self.fail("statements after the function's value")
            if e[0] == "if" and e[3] is not None:
                ls, c, cty = self.expr(e[1], ln)
                out = self.I(ind, ls + [f"if {self.prop(c, cty, ln)} then"])
                for n, br in enumerate((e[2], e[3])):
                    bst, bt = br
                    if bt is None: self.fail("branch of the function's value without a value")
                    self.scopes.append({})
                    out += self.stmts(list(bst) + [("fnvalue", bt, None)], 0, k, ind + 1)
                    self.scopes.pop()
                    if n == 0: out += self.I(ind, ["else"])
                return out
            ls, t, ty = self.expr(e, ln)
            if self.result_ty not in (None, ty): self.fail(f"function value of type {ty} and {self.result_ty}")
            self.result_ty = ty
            return self.I(ind, self.tail_opt(ls + [f"pure {atom(t)}"]))
        self.fail(f"statement `{kind}`", ln)

    def if_stmt(self, e, rest, ind, ln):
        ls, c, cty = self.expr(e[1], ln)
        c = self.prop(c, cty, ln)
        A = e[2]; B = e[3] if e[3] is not None else ([], None)
        if self.escapes(A) or self.escapes(B):
            out = self.I(ind, ls + [f"if {c} then"])
            out += self.block(A, rest, ind + 1)
            out += self.I(ind, ["else"])
            out += self.block(B, rest, ind + 1)
            return out
        M = self.assigned(([("expr", ("if", ("bool", True), A, B), None)], None))
        pat = tup(M)
        ka = lambda ind2: self.I(ind2, [f"pure {pat}"])
        known = list(self.ltypes)
        la = self.block(A, ka, 0); lb = self.block(B, ka, 0)
        self.check_rebinds(la + lb, known, M, ln)
        pure_a = all(re.match(r"\s*let \S+ := ", l) for l in la[:-1]); pure_b = all(re.match(r"\s*let \S+ := ", l) for l in lb[:-1])
        if pure_a and pure_b and M:
            def chain(lines): return "".join(l.strip() + "; " for l in lines[:-1]) + pat
            ta = chain(la); tb = chain(lb)
            ta = f"({ta})" if len(la) > 1 else ta; tb = f"({tb})" if len(lb) > 1 else tb
            return self.I(ind, ls + [f"let {pat} := if {c} then {ta} else {tb}"]) + rest(ind)
        lhs = pat if M else "_"
        out = self.I(ind, ls + [f"let {lhs} ← (if {c} then"])
        out += self.I(ind + 2, ["(do"]) + self.I(ind + 3, [l for l in la[:-1]] + [la[-1] + ")"])
        out += self.I(ind + 1, ["else"])
        out += self.I(ind + 2, ["(do"]) + self.I(ind + 3, [l for l in lb[:-1]] + [lb[-1] + "))"])
        return out + rest(ind)

    def range_of(self, it, ln):
        """(lo expr, hi expr, inclusive, reversed)"""
        rev = False
        if it[0] == "mcall" and it[2] == "rev" and not it[3]:
            rev = True; it = it[1]
            if it[0] != "paren": self.fail("`.rev()` of something that is not a parenthesised range", ln)
            it = it[1]
        elif it[0] == "paren": it = it[1]
        if it[0] != "range" or it[1] is None or it[2] is None: self.fail("`for` over something that is not `lo..hi` / `lo..=hi` / `(..).rev()`", ln)
        return it[1], it[2], it[3], rev

    def for_loop(self, s, rest, ind):
        var, it, body, ln = s[1], s[2], s[3], s[4]
        if not isinstance(var, str): self.fail("`for` with a tuple pattern", ln)
        lo, hi, incl, rev = self.range_of(it, ln)
        l1, a, ta = self.expr(lo, ln); l2, b, tb = self.expr(hi, ln)
        if ta != "nat" or tb != "nat": self.fail("range bounds", ln)
        cnt = f"({atom(b)} + 1 - {atom(a)})" if incl else f"({atom(b)} - {atom(a)})"
        M = self.assigned(body)
        pat = tup(M)
        known = list(self.ltypes)
        self.scopes.append({})
        v = self.declare(var, "nat", False)
        self.loops.append(pat)
        kb = lambda ind2: self.I(ind2, [f"pure (Ctl.next {pat})"])
        lb = self.block(body, kb, 2)
        self.loops.pop(); self.scopes.pop()
        comb = "forDown" if rev else "forUp"
        lhs = pat if M else "()"
        self.check_rebinds(lb, known, M, ln)
        f = self.aux_loop("for", ln, lb, [v.lean] + M, pat, M, f"fun {v.lean} {pat}", known)
        out = self.I(ind, l1 + l2 + [f"let {lhs} ← {comb} {atom(a)} {cnt} {pat} {f}"])
        return out + rest(ind)

    def while_loop(self, s, rest, ind):
        cond, body, ln = s[1], s[2], s[3]
        if not self.fuels: self.fail("`while` without a fuel entry in the table", ln)
        fuel = self.fuels.pop(0)
        M = self.assigned(body)
        pat = tup(M)
        known = list(self.ltypes)
        self.loops.append(pat)
        ls, c, cty = self.expr(cond, ln)
        kb = lambda ind2: self.I(ind2, [f"pure (Ctl.next {pat})"])
        lb = self.block(body, kb, 3)
        self.loops.pop()
        lines = self.I(2, ls + [f"if {self.prop(c, cty, ln)} then"]) + lb + self.I(2, ["else", f"  pure (Ctl.brk {pat})"])
        self.check_rebinds(lines, known, M, ln)
        f = self.aux_loop("while", ln, lines, M, pat, M, f"fun {pat}", known)
        out = self.I(ind, [f"let {pat if M else '()'} ← whileFuel {fuel} {pat} {f}"])
        return out + rest(ind)

    # ---- skeleton reading of statements on opaque objects (table key `effects`: canonical statement text -> replacement statements;
    #      TRUSTED).  A PRE-PASS over the whole body, so that every later analysis (assigned variables, escapes) sees the rewritten code.
    def apply_effects(self, b):
        eff = self.ent.get("effects", {})
        def ex(e):
            if not isinstance(e, tuple) or not e: return e
            if e[0] == "if": return ("if", e[1], blk(e[2]), blk(e[3]) if e[3] is not None else None)
            if e[0] == "blockexpr": return ("blockexpr", blk(e[1]))
            if e[0] == "match": return ("match", e[1], [(p, ex(body)) for p, body in e[2]])
            return e
        def blk(b):
            stmts, tail = b; out = []
            for s in stmts:
                sc = scanon(s)
                if sc is not None and sc in eff:
                    self.eff_used.add(sc)
                    ps = self.T.Parser(self.T.tokenize("{" + eff[sc] + "}", s[-1] if isinstance(s[-1], int) else 0), self.fn["name"]); ps.allow_continue = True
                    rs, rt = ps.block()
                    if rt is not None: self.fail(f"effect replacement of `{sc}` must consist of statements", s[-1])
                    out += list(rs); continue
                k = s[0]
                if k == "let": out.append(("let", s[1], s[2], s[3], ex(s[4]) if s[4] is not None else None, s[5]))
                elif k == "expr": out.append(("expr", ex(s[1]), s[2] if len(s) > 2 else None))      # (the parser emits a 2-tuple for a block-like expression statement)
                elif k == "for": out.append(("for", s[1], s[2], blk(s[3]), s[4]))
                elif k == "while": out.append(("while", s[1], blk(s[2]), s[3]))
                elif k == "loop": out.append(("loop", blk(s[1]), s[2]))
                else: out.append(s)
            return (out, ex(tail) if tail is not None else None)
        return blk(b)

    def check_rebinds(self, lines, known, M, ln):
        """guard against gaps of the assigned-variable analysis: a loop body / branch must not re-bind a variable that was declared outside
        it unless that variable is part of the state it returns"""
        for l in lines:
            m = re.match(r"\s*let \(?([A-Za-z0-9_, ]+)\)? (?:←|:=) ", l)
            if not m: continue
            for n in re.split(r"[ ,]+", m.group(1).strip()):
                if n in known and n not in M and re.fullmatch(r"[av]\d+", n):
                    self.fail(f"internal: `{n}` is re-bound inside a loop body / branch but is not part of its state", ln)

    # ---- the function
    def run(self):
        fn = self.fn
        binders = []; ptys = []
        na = 0
        for pn, pt, mut in fn["params"]:
            if pn == "self":
                if pt[1] != "ref": self.fail("receiver other than `&self`")
                ty = ("struct", fn["selfty"])
                if fn["selfty"] not in self.G.structs: self.fail(f"`&self` of unregistered struct {fn['selfty']}")
            else: ty = self.rty(pt, f"parameter {pn}")
            v = self.declare(pn, ty, mut, prefix=f"a{na}"); na += 1
            binders.append(f"({v.lean} : {self.lty(ty)})"); ptys.append(ty)
        for text, binder, ty in self.abs: binders.append(f"({binder} : {ty})")
        ret = self.rty(fn["ret"], "return type")
        self.result_ty = None
        bst, bt = self.apply_effects(fn["body"])
        if bt is None: self.fail("function body without a value")
        body = self.stmts(list(bst) + [("fnvalue", bt, None)], 0, lambda ind: self.fail("function body without a value"), 1)
        if self.result_ty != ret: self.fail(f"body has type {self.result_ty}, declared {ret}")
        for i, (text, binder, ty) in enumerate(self.abs):
            if i not in self.abs_used: self.fail(f"table entry `{text}` never matched")
        if self.fuels: self.fail("unused fuel entries in the table")
        for sc in self.ent.get("effects", {}):
            if sc not in self.eff_used: self.fail(f"effects entry `{sc}` never matched")
        doc = (f"/-- `{fn['name']}`" + (f" (impl {fn['impl']})" if fn["impl"] else "") + f"  {fn['file']}:{fn['line0']}-{fn['line1']}  sha256/64(normalised source) = {fn['hash']}\n"
               f"    names: {' '.join(self.namemap)} -/")
        head = f"def {self.name} " + " ".join(binders) + f" : R {atom(self.lty(ret))} := do"
        return {"text": "\n\n".join(self.aux + ["\n".join([doc, head] + body)]), "params": ptys, "ret": ret, "lean": self.name}


class Gen:
    def __init__(self, T, repo, spec):
        self.T, self.repo, self.spec = T, repo, spec
        self.enums = {}; self.structs = {}; self.sigs = {}; self.consts = {}

    def src(self, rel): return self.T.strip_comments(open(os.path.join(self.repo, rel)).read())

    def load_enum(self, ent):
        src = self.src(ent["file"])
        ms = list(re.finditer(r"\benum\s+%s\s*\{" % re.escape(ent["enum"]), src))
        if len(ms) != 1: raise self.T.Unsupported(f"enum {ent['enum']} found {len(ms)} times in {ent['file']}")
        j = ms[0].end() - 1; end = self.T.brace_block(src, j, f"enum {ent['enum']}")
        vs = [x.strip() for x in src[j + 1:end - 1].split(",") if x.strip()]
        for x in vs:
            if not re.fullmatch(r"\w+", x): raise self.T.Unsupported(f"enum {ent['enum']} in {ent['file']}: variant `{x}` is not a plain name")
        if vs != list(ent["variants"].keys()):
            raise self.T.Unsupported(f"enum {ent['enum']} in {ent['file']}: variants {vs} differ from the table {list(ent['variants'].keys())}")
        self.enums[ent["enum"]] = {"model": ent["model"], "variants": ent["variants"]}

    def load_struct(self, ent):
        src = self.src(ent["file"])
        ms = list(re.finditer(r"\bstruct\s+%s\s*\{" % re.escape(ent["struct"]), src))
        if len(ms) != 1: raise self.T.Unsupported(f"struct {ent['struct']} found {len(ms)} times in {ent['file']}")
        j = ms[0].end() - 1; end = self.T.brace_block(src, j, f"struct {ent['struct']}")
        text = re.sub(r"#\[[^\]]*\]", " ", src[j + 1:end - 1])
        fields = []
        for item in text.split(","):
            item = item.strip()
            if not item: continue
            m = re.fullmatch(r"(?:pub(?:\([a-z]+\))?\s+)?(\w+)\s*:\s*(\w+)", item)
            if not m: raise self.T.Unsupported(f"struct {ent['struct']} in {ent['file']}: field `{item}` is not `name: PlainType`")
            t = m.group(2)
            if t in NAT_TYPES: ty = "nat"
            elif t == "bool": ty = "bool"
            elif t in self.enums: ty = ("enum", t)
            else: raise self.T.Unsupported(f"struct {ent['struct']} in {ent['file']}: field type `{t}`")
            fields.append((m.group(1), ty))
        if not fields: raise self.T.Unsupported(f"struct {ent['struct']}: no fields")
        self.structs[ent["struct"]] = {"fields": fields}
        lt = {"nat": "Nat", "bool": "Bool"}
        lines = [f"/-- `struct {ent['struct']}` ({ent['file']}): fields read from the source -/", f"structure {ent['struct']} where"]
        for f, ty in fields: lines.append(f"  {f} : {lt[ty] if isinstance(ty, str) else self.enums[ty[1]]['model']}")
        lines.append("  deriving Repr")
        return "\n".join(lines)

    def load_const(self, name, rel):
        src = self.src(rel)
        ms = re.findall(r"\bconst\s+%s\s*:\s*(?:usize|u64)\s*=\s*([0-9][0-9_]*)\s*;" % re.escape(name), src)
        if len(ms) != 1: raise self.T.Unsupported(f"const {name} found {len(ms)} times in {rel}")
        self.consts[name] = int(ms[0].replace("_", ""))

    def generate(self):
        spec = self.spec
        out = ["/- GENERATED by tools/rs2lean_app.py (via tools/rs2lean.py / tools/extract.py) from " + ", ".join(sorted({e["file"] for e in spec["table"]})) + " -- do not edit.",
               "   App mode (TRANSLATOR / notes phase 4h): usize = Nat, plain + - * = ckAdd/ckSub/ckMul in R, `/` `%` = ckDiv/ckMod, Vec<usize> = List Nat,",
               "   loops = forUp / forDown / whileFuel applied to a body that returns `Ctl.next state` (fall through, `continue`) or `Ctl.brk state` (`break`);",
               "   locals are named by position (v1, v2, ...; parameters a0, a1, ...; temporaries t1, ...). -/"]
        out += [f"import {m}" for m in spec["imports"]]
        out += ["", "set_option linter.unusedVariables false", "", f"namespace HC.{spec['ns']}", "open HC", ""]
        if spec.get("prelude_file"):
            # the loop combinators and checked primitives shared by the app-mode files: no source dependence, cannot fail
            return "\n".join(["/- GENERATED by tools/rs2lean_app.py -- do not edit.  Prelude of the app-mode files (Gen/App*Fns.lean): loop combinators and",
                               "   checked primitives; see TRANSLATOR / notes phase 4h. -/"] + out[4:] + [PRELUDE, f"end HC.{spec['ns']}", ""])
        for ent in spec["table"]:
            if "enum" in ent: self.load_enum(ent); continue
            if "enum_alias" in ent:
                # `use path::{.., A as B, ..};`: B is A under another name (checked in the source on every run)
                if not re.search(r"\buse\b[^;]*\b%s\s+as\s+%s\b[^;]*;" % (re.escape(ent["of"]), re.escape(ent["enum_alias"])), self.src(ent["file"])):
                    raise self.T.Unsupported(f"{ent['file']}: `use .. {ent['of']} as {ent['enum_alias']}` not found")
                self.enums[ent["enum_alias"]] = self.enums[ent["of"]]; continue
            if "struct" in ent: out += [self.load_struct(ent), ""]; continue
            for cn, crel in ent.get("consts", {}).items(): self.load_const(cn, crel)
            if "fragment" in ent: fn = parse_fragment(self.T, self.repo, ent)
            else: fn = self.T.parse_fn(self.repo, ent["file"], ent["fn"], ent.get("impl"), allow_continue=True)
            r = Lower(self, fn, ent).run()
            if "fragment" not in ent: self.sigs[(ent["file"], ent["fn"])] = r
            out += [r["text"], ""]
        out += [f"end HC.{spec['ns']}", ""]
        return "\n".join(out)


def stmt_end(T, toks, k, what):
    """index just after the statement that starts at token k (token level: a `for` / `while` / `loop` / `if` statement ends with its last
    block, anything else with the first `;` outside brackets)"""
    def close(q):      # q at `{`: index just after the matching `}`
        d = 0
        while q < len(toks):
            if toks[q][1] == "{": d += 1
            elif toks[q][1] == "}":
                d -= 1
                if d == 0: return q + 1
            q += 1
        raise T.Unsupported(f"{what}: unbalanced braces in fragment")
    def to_brace(q):
        d = 0
        while q < len(toks):
            t = toks[q][1]
            if t in ("(", "["): d += 1
            elif t in (")", "]"): d -= 1
            elif t == "{" and d == 0: return q
            q += 1
        raise T.Unsupported(f"{what}: block expected in fragment")
    if k >= len(toks): raise T.Unsupported(f"{what}: fragment runs past the end of the function")
    t0 = toks[k][1]
    if t0 in ("for", "while", "loop"): return close(to_brace(k))
    if t0 == "if":
        q = close(to_brace(k))
        while q < len(toks) and toks[q][1] == "else":
            q = close(to_brace(q))
        return q
    d = 0; q = k
    while q < len(toks):
        t = toks[q][1]
        if t in ("(", "[", "{"): d += 1
        elif t in (")", "]", "}"):
            d -= 1
            if d < 0: raise T.Unsupported(f"{what}: fragment statement runs out of its block")
        elif t == ";" and d == 0: return q + 1
        q += 1
    raise T.Unsupported(f"{what}: `;` expected in fragment")


def parse_fragment(T, repo, ent):
    """table key `fragment`: translate only a contiguous run of statements of a function that as a whole is outside the subset (opaque
    objects, `unsafe`, generic types in the signature).  TOKEN level: {"start": source text with which the first statement begins (its token
    sequence must occur exactly once in the function body), "count": number of statements, "params": [(name, Rust type AST)] = the free
    variables of the run (anything else is an unknown identifier: loud failure), "prologue": Rust statements put in front (declarations of
    result variables), "result": the variable returned, "ret": its type}.  Only the run is parsed."""
    fr = ent["fragment"]; rel = ent["file"]; name = ent["fn"]; impl = ent.get("impl")
    what = f"{rel}: fn {name}"
    src = T.strip_comments(open(os.path.join(repo, rel)).read())
    lo, hi = 0, None
    if impl is not None:
        pat = r"\bimpl\s+" + r"\s+".join(re.escape(w) for w in impl.split()) + r"\s*\{"
        hits = []
        for mb in re.finditer(pat, src):
            j0 = mb.end() - 1; e0 = T.brace_block(src, j0, f"impl {impl}")
            if re.search(r"\bfn\s+%s\s*\(" % re.escape(name), src[j0:e0]): hits.append((j0, e0))
        if len(hits) != 1: raise T.Unsupported(f"{what} found in {len(hits)} `impl {impl}` blocks")
        lo, hi = hits[0]
    off, line = T.find_fn(src, name, rel if impl is None else f"{rel} (impl {impl})", lo, hi)
    j = src.index("{", off); end = T.brace_block(src, j, what)
    toks = T.tokenize(src[j:end], src.count("\n", 0, j) + 1)[:-1]
    pat = [t[1] for t in T.tokenize(fr["start"])][:-1]
    hits = [i for i in range(len(toks) - len(pat) + 1) if [t[1] for t in toks[i:i + len(pat)]] == pat]
    if len(hits) != 1: raise T.Unsupported(f"{what}: fragment start `{fr['start']}` found {len(hits)} times")
    i = hits[0]; k = i
    for _ in range(fr["count"]): k = stmt_end(T, toks, k, what)
    l0 = toks[i][2]; l1 = toks[k - 1][2]
    body = [("p", "{", l0)] + toks[i:k] + [("p", "}", l1), ("eof", "", l1)]
    ps = T.Parser(body, name); ps.allow_continue = True
    stmts, tail = ps.block()
    if tail is not None: stmts = list(stmts) + [("expr", tail, l1)]
    pre = []
    if fr.get("prologue"):
        pp = T.Parser(T.tokenize("{" + fr["prologue"] + "}", l0), name); pre, pt = pp.block()
        if pt is not None: raise T.Unsupported(f"{what}: fragment prologue must consist of statements")
    norm = " ".join(t[1] for t in toks[i:k])
    selfty = None; params = []
    for n, t in fr["params"]:
        if n == "self": selfty = t; params.append(("self", ("selfty", "ref"), False))       # `("self", "StructName")`: the receiver `&self` of a registered struct
        else: params.append((n, t, False))
    return {"name": name + " [fragment]", "params": params, "ret": fr["ret"],
            "body": (list(pre) + list(stmts), ("path", [fr["result"]])), "file": rel, "line0": l0, "line1": l1,
            "hash": hashlib.sha256(norm.encode()).hexdigest()[:16], "norm": norm, "selfty": selfty, "aliases": {}, "impl": impl}


def generate(T, tr, spec):
    return Gen(T, tr.repo, spec).generate()
