"""Tables of translator phase 4h (app mode, tools/rs2lean_app.py): which functions of the application layer are regenerated into
Gen/AppFns.lean, the enum / struct registrations, and the abstracted float expressions (inputs of the generated function)."""
CH = "src/app/matmul/cheetah.rs"; CV = "src/app/conv2d.rs"; BE = "src/batch_encoder.rs"; LW = "src/app/lwe.rs"
OBJ = {"CipherPlain": "cipherPlain", "PlainCipher": "plainCipher", "CpAddPc": "cpAddPc"}

TABLE_APP = [
    {"enum": "MatmulHelperObjective", "file": CH, "model": "MM.Objective", "variants": OBJ},
    {"enum_alias": "Conv2dHelperObjective", "of": "MatmulHelperObjective", "file": CV},
    {"struct": "MatmulHelper", "file": CH},
    {"struct": "Conv2dHelper", "file": CV},
    {"file": CH, "fn": "ceil_div", "lean": "mm_ceil_div", "model": "MM.ceilDiv"},
    # the two float expressions of the pack_lwe branch are INPUTS (Lean has no IEEE `powf` / `log2`): the equality theorem is stated at
    # packExpIn = MM.packExp N and 2^ceilLog2In = MM.ceilTwoPower id (float facts as hypotheses; agreement of the f64 computation with
    # these exact values is what the correspondence lines `mm_new … pack` check)
    {"file": CH, "fn": "new", "impl": "MatmulHelper", "lean": "mm_new", "model": "MM.Helper.new", "assert_kind": "other",
     "abstract": [("((poly_degree as f64).powf(0.33) as usize).ilog2()", "packExpIn", "Nat"),
                  ("(input_dims as f64).log2().ceil() as u32", "ceilLog2In", "Nat")]},
    {"file": CH, "fn": "input_terms", "impl": "MatmulHelper", "lean": "mm_input_terms", "model": "MM.inputTerms"},
    {"file": CH, "fn": "output_terms", "impl": "MatmulHelper", "lean": "mm_output_terms", "model": "MM.outputTerms"},
    {"file": CV, "fn": "ceil_div", "lean": "cv_ceil_div", "model": "MM.ceilDiv"},
    {"file": CV, "fn": "new", "impl": "Conv2dHelper", "lean": "cv_new", "model": "MM.CHelper.new"},
    {"file": CV, "fn": "output_terms", "impl": "Conv2dHelper", "lean": "cv_output_terms", "model": "MM.cvOutputTerms"},
]

FILES = [
    ("AppFns.lean", {"ns": "GenApp", "app_mode": True, "imports": ["Heathcliff.Model.Matmul"], "table": TABLE_APP}),
]
