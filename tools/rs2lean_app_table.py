"""Tables of translator phase 4h (app mode, tools/rs2lean_app.py): which functions of the application layer are regenerated into
Gen/AppFns.lean, the enum / struct registrations, and the abstracted float expressions (inputs of the generated function)."""
CH = "src/app/matmul/cheetah.rs"; CV = "src/app/conv2d.rs"; BE = "src/batch_encoder.rs"; LW = "src/app/lwe.rs"
UB = "src/util/basic.rs"; USZ = ("name", "usize")
OBJ = {"CipherPlain": "cipherPlain", "PlainCipher": "plainCipher", "CpAddPc": "cpAddPc"}

TABLE_APP = [
    {"enum": "MatmulHelperObjective", "file": CH, "model": "MM.Objective", "variants": OBJ},
    {"enum_alias": "Conv2dHelperObjective", "of": "MatmulHelperObjective", "file": CV},
    {"struct": "MatmulHelper", "file": CH},
    {"struct": "Conv2dHelper", "file": CV},
    {"file": CH, "fn": "ceil_div", "lean": "mm_ceil_div", "model": "MM.ceilDiv"},
    # the two float expressions of the pack_lwe branch are INPUTS (Lean has no IEEE `powf` / `log2`): the equality theorem is stated at
    # packExpIn = MM.packExp N and 2^ceilLog2In = MM.ceilTwoPower id (float facts as hypotheses; agreement of the f64 computation with
    # these exact values is what the correspondence lines `mm_new … pack` check)
    {"file": CH, "fn": "new", "impl": "MatmulHelper", "lean": "mm_new", "model": "MM.Helper.new", "assert_kind": "other",
     "abstract": [("((poly_degree as f64).powf(0.33) as usize).ilog2()", "packExpIn", "Nat"),
                  ("(input_dims as f64).log2().ceil() as u32", "ceilLog2In", "Nat")]},
    {"file": CH, "fn": "input_terms", "impl": "MatmulHelper", "lean": "mm_input_terms", "model": "MM.inputTerms"},
    {"file": CH, "fn": "output_terms", "impl": "MatmulHelper", "lean": "mm_output_terms", "model": "MM.outputTerms"},
    # second round: positions written by the encoders (fragments; the element write `vec[POS] = src[SRC]` is read as "POS must be inside the
    # buffer, record (POS, SRC)"; `encode_weight_small_bfv` keeps its real `vec` for `vec.len()` and its own `assert!`)
    {"file": CH, "fn": "encode_weight_small_bfv", "impl": "MatmulHelper", "lean": "mm_weight_positions", "model": "MM.wPos / encWeightSmall",
     "effects": {"vec[r] = weights[i * self.output_dims + j]": "plan.push(r); plan.push(i * self.output_dims + j);"},
     "fragment": {"start": "let slots = self.poly_degree;", "count": 3,
                  "params": [("self", "MatmulHelper"), ("li", USZ), ("ui", USZ), ("lj", USZ), ("uj", USZ)],
                  "prologue": "let mut plan = vec![];", "result": "plan", "ret": ("vec", USZ)}},
    {"file": CH, "fn": "encode_inputs_bfv", "impl": "MatmulHelper", "lean": "mm_input_positions", "model": "MM.inPos / encInputBlock",
     "effects": {"vec[(i - li) * self.input_block * self.output_block + (j - lj)] = inputs[i * self.input_dims + j]":
                 "let p = (i - li) * self.input_block * self.output_block + (j - lj); assert!(p < self.poly_degree); plan.push(p); plan.push(i * self.input_dims + j);"},
     "fragment": {"start": "for i in li..ui {", "count": 1,
                  "params": [("self", "MatmulHelper"), ("li", USZ), ("ui", USZ), ("lj", USZ), ("uj", USZ)],
                  "prologue": "let mut plan = vec![];", "result": "plan", "ret": ("vec", USZ)}},
    {"file": CH, "fn": "decrypt_outputs_bfv", "impl": "MatmulHelper", "lean": "mm_output_positions", "model": "MM.outPos / decodeOutputs",
     "effects": {"decryptor.decrypt(&outputs.data[di][dj], &mut pt)": "", "encoder.decode_polynomial(&pt, &mut buffer)": "",
                 "buffer.resize(self.poly_degree, 0)": "",
                 "dec[i * self.output_dims + j] = buffer[(i - li) * self.input_block * self.output_block + (j - lj) * self.input_block + self.input_block - 1]":
                 "let p = (i - li) * self.input_block * self.output_block + (j - lj) * self.input_block + self.input_block - 1; assert!(p < self.poly_degree); plan.push(i * self.output_dims + j); plan.push(p);"},
     "fragment": {"start": "decryptor.decrypt(&outputs.data[di][dj], &mut pt);", "count": 4,
                  "params": [("self", "MatmulHelper"), ("li", USZ), ("ui", USZ), ("lj", USZ), ("uj", USZ)],
                  "prologue": "let mut plan = vec![];", "result": "plan", "ret": ("vec", USZ)}},
    {"file": CV, "fn": "ceil_div", "lean": "cv_ceil_div", "model": "MM.ceilDiv"},
    {"file": CV, "fn": "new", "impl": "Conv2dHelper", "lean": "cv_new", "model": "MM.CHelper.new"},
    {"file": CV, "fn": "output_terms", "impl": "Conv2dHelper", "lean": "cv_output_terms", "model": "MM.cvOutputTerms"},
    {"file": CV, "fn": "get_total_batch_size", "impl": "Conv2dHelper", "lean": "cv_total_batch", "model": "MM.CHelper.totalBatch"},
]

TABLE_APP_BATCH = [
    # ---- src/util/basic.rs `reverse_bits_u64`, src/batch_encoder.rs `BatchEncoder::new`: the `matrix_reps_index_map` loop (fragment: the function
    # as a whole works on a context; free variables of the run: `slots` = poly_modulus_degree, `logn` = get_power_of_two(slots))
    {"file": UB, "fn": "reverse_bits_u64", "lean": "reverse_bits_u64", "model": "brev"},
    {"file": BE, "fn": "new", "impl": "BatchEncoder", "lean": "be_index_map", "model": "batchIndexMap",
     "consts": {"GALOIS_GENERATOR": "src/util/galois.rs"}, "fncalls": {"util::reverse_bits_u64": (UB, "reverse_bits_u64")},
     "fragment": {"start": "matrix_reps_index_map = vec![0; slots];", "count": 6, "params": [("slots", USZ), ("logn", USZ)],
                  "prologue": "let mut matrix_reps_index_map = vec![];", "result": "matrix_reps_index_map", "ret": ("vec", USZ)}},
]

TABLE_APP_LWE = [
    # ---- src/app/lwe.rs: index / loop arithmetic of the LWE tools (fragments; evaluator calls are opaque steps recorded in a plan)
    {"file": LW, "fn": "extract_lwe", "impl": "Evaluator", "lean": "lwe_extract_shift", "model": "shift of extractLwe",
     "fragment": {"start": "let shift = if term == 0", "count": 1, "params": [("term", USZ), ("poly_modulus_degree", USZ)],
                  "result": "shift", "ret": USZ}},
    {"file": LW, "fn": "pack_lwe_ciphertexts", "impl": "Evaluator", "lean": "lwe_pack_log", "model": "packLog", "fuels": [65],
     "fragment": {"start": "let mut l = 0;", "count": 2, "params": [("lwes_count", USZ)], "result": "l", "ret": USZ}},
    # the leaf loop of `pack_lwe_ciphertexts`: which input goes to which slot of `rlwes` (plan entry = input index, or `lwes_count` for "zero")
    {"file": UB, "fn": "reverse_bits_u64", "lean": "lwe_reverse_bits_u64", "model": "brev"},
    {"file": LW, "fn": "pack_lwe_ciphertexts", "impl": "Evaluator", "lean": "lwe_pack_leaves", "model": "packLeaves (index structure)",
     "fncalls": {"util::reverse_bits_u64": (UB, "reverse_bits_u64")},
     "effects": {"rlwes[i] = self.assemble_lwe(&lwes[index])": "plan.push(index);",
                 "self.divide_by_poly_modulus_degree_inplace(&mut rlwes[i], None)": "",
                 "rlwes[i] = zero_rlwe.clone()": "plan.push(lwes_count);"},
     "fragment": {"start": "for i in 0..(1<<l) {", "count": 1, "params": [("l", USZ), ("lwes_count", USZ)], "prologue": "let mut plan = vec![];",
                  "result": "plan", "ret": ("vec", USZ)}},
    # the merge layers of `pack_lwe_ciphertexts`: per butterfly the plan records (odd slot, shift, even slot, Galois element)
    {"file": LW, "fn": "pack_lwe_ciphertexts", "impl": "Evaluator", "lean": "lwe_pack_merge_plan", "model": "packLayer (index structure)",
     "fuels": [18446744073709551616],
     "effects": {"let even = unsafe {rlwes.as_mut_ptr().add(offset).as_mut().unwrap()}": "let even = offset;",
                 "let odd = unsafe {rlwes.as_mut_ptr().add(offset + gap).as_mut().unwrap()}": "let odd = offset + gap;",
                 "polymod::negacyclic_shift_ps(odd.data(), shift, odd.size(), poly_modulus_degree, modulus, temp.data_mut())": "plan.push(odd); plan.push(shift);",
                 "self.sub(even, &temp, odd)": "", "self.add_inplace(even, &temp)": "",
                 "self.transform_to_ntt_inplace(odd)": "",
                 "self.apply_galois_inplace(odd, (1 << (layer + 1)) + 1, automorphism_keys)": "plan.push(even); plan.push((1<<(layer+1))+1);",
                 "self.transform_from_ntt_inplace(odd)": "", "self.add_inplace(even, odd)": ""},
     "fragment": {"start": "for layer in 0..l {", "count": 1, "params": [("l", USZ), ("poly_modulus_degree", USZ), ("ntt_form", ("name", "bool"))],
                  "prologue": "let mut plan = vec![];", "result": "plan", "ret": ("vec", USZ)}},
    # second round: the WHOLE plan of `pack_lwe_ciphertexts` as one generated function: [l] ++ leaves ++ butterflies ++ [trace parameter]
    {"file": LW, "fn": "pack_lwe_ciphertexts", "impl": "Evaluator", "lean": "lwe_pack_plan", "model": "packPoly (whole program)",
     "fuels": [65, 18446744073709551616], "fncalls": {"util::reverse_bits_u64": (UB, "reverse_bits_u64")},
     "effects": {"let mut rlwes = vec![Ciphertext::new(); 1 << l]": "plan.push(l);",
                 "let mut zero_rlwe = self.assemble_lwe(&lwes[0])": "", "zero_rlwe.data_mut().fill(0)": "",
                 "rlwes[i] = self.assemble_lwe(&lwes[index])": "plan.push(index);",
                 "self.divide_by_poly_modulus_degree_inplace(&mut rlwes[i], None)": "",
                 "rlwes[i] = zero_rlwe.clone()": "plan.push(lwes_count);",
                 "let modulus = context_data.parms().coeff_modulus()": "", "let mut temp = zero_rlwe.clone()": "",
                 "let even = unsafe {rlwes.as_mut_ptr().add(offset).as_mut().unwrap()}": "let even = offset;",
                 "let odd = unsafe {rlwes.as_mut_ptr().add(offset + gap).as_mut().unwrap()}": "let odd = offset + gap;",
                 "polymod::negacyclic_shift_ps(odd.data(), shift, odd.size(), poly_modulus_degree, modulus, temp.data_mut())": "plan.push(odd); plan.push(shift);",
                 "self.sub(even, &temp, odd)": "", "self.add_inplace(even, &temp)": "",
                 "self.transform_to_ntt_inplace(odd)": "",
                 "self.apply_galois_inplace(odd, (1 << (layer + 1)) + 1, automorphism_keys)": "plan.push(even); plan.push((1<<(layer+1))+1);",
                 "self.transform_from_ntt_inplace(odd)": "", "self.add_inplace(even, odd)": "",
                 "let mut ret = rlwes[0].clone()": "", "self.transform_to_ntt_inplace(&mut ret)": "",
                 "self.field_trace_inplace(&mut ret, automorphism_keys, l)": "plan.push(l);"},
     "fragment": {"start": "let mut l = 0;", "count": 12, "params": [("lwes_count", USZ), ("poly_modulus_degree", USZ), ("ntt_form", ("name", "bool"))],
                  "prologue": "let mut plan = vec![];", "result": "plan", "ret": ("vec", USZ)}},
    # `field_trace_inplace`: the whole loop; `apply_galois` + `add_inplace` = one step with the Galois element recorded
    {"file": LW, "fn": "field_trace_inplace", "impl": "Evaluator", "lean": "lwe_field_trace_plan", "model": "fieldTracePoly (loop structure)", "fuels": [65],
     "opaque": ["self"],
     "abstract": [("self.context().key_context_data().unwrap().parms().poly_modulus_degree()", "keyDegree", "Nat")],
     "effects": {"let mut temp = Ciphertext::new()": "",
                 "self.apply_galois(encrypted, galois_element, automorphism_keys, &mut temp)": "plan.push(galois_element);",
                 "self.add_inplace(encrypted, &temp)": ""},
     "fragment": {"start": "let mut poly_degree =", "count": 3, "params": [("logn", USZ)], "prologue": "let mut plan = vec![];",
                  "result": "plan", "ret": ("vec", USZ)}},
]

# One generated file per property (per-file failure isolation: a construct outside the subset in lwe.rs must not raise an alarm for C20 / C11),
# plus the shared prelude (loop combinators, checked primitives), which has no source dependence.
FILES = [
    ("AppPrelude.lean", {"ns": "GenApp", "app_mode": True, "prelude_file": True, "imports": ["Heathcliff.Model.Word"], "table": []}),
    ("AppFns.lean", {"ns": "GenApp", "app_mode": True, "imports": ["Heathcliff.Gen.AppPrelude", "Heathcliff.Model.Matmul"], "table": TABLE_APP}),
    ("AppBatchFns.lean", {"ns": "GenApp", "app_mode": True, "imports": ["Heathcliff.Gen.AppPrelude"], "table": TABLE_APP_BATCH}),
    ("AppLweFns.lean", {"ns": "GenApp", "app_mode": True, "imports": ["Heathcliff.Gen.AppPrelude"], "table": TABLE_APP_LWE}),
]
