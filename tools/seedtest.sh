#!/bin/bash
# usage: tools/seedtest.sh <Cnn> <mutation dir, e.g. /tmp/mut/C08> [checks to run, default: the property itself] [--tier t]
# Confirms a seeded change in the sub-agent's scratch worktree (builds, existing suite passes, demonstration fails with the change and
# passes without it), then runs the registered check(s) against the changed tree.
# While other sub-agents are reading /repo the changed tree is a scratch worktree (SEED_SCRATCH=1, default): the harness is copied with
# its path dependency pointed at the scratch tree and the Lean project is copied too (Gen files differ), evidence / replays go to the
# scratch directory.  With SEED_SCRATCH=0 the patch is applied to /repo itself and undone straight afterwards.
set -u
P=$1; D=$2; shift 2; CHECKS=${@:-$P}; TIER=${SEED_TIER:-quick}
W=$D/repo; export CARGO_TARGET_DIR=$D/target
meta() { python3 -c "import json,sys; print(json.load(open('$D/meta.json')).get('$1',''))"; }
DEMO=$(meta demo_cmd)
echo "== demo with the change (expected to fail):"; (cd $D && bash -c "$DEMO" > $D/demo_with.log 2>&1); echo "exit $?"
echo "== build + existing suite (lib tests) with the change:"
(cd $W && cargo build --offline 2>&1 | tail -1 && cargo build --offline --features verif 2>&1 | tail -1 && cargo nextest run --offline --lib 2>&1 | grep -E "Summary|FAIL" | head -5)
echo "== demo without the change:"; (cd $W && git apply -R $D/patch.diff && (cd $D && bash -c "$DEMO") > $D/demo_without.log 2>&1; R0=$?; git apply $D/patch.diff; echo "exit $R0 (expected 0)")
unset CARGO_TARGET_DIR
if [ "${SEED_SCRATCH:-1}" = "1" ]; then
  S=/tmp/seedrun/$P; rm -rf $S; mkdir -p $S
  git -C /repo worktree add --detach $S/repo HEAD -q && git -C $S/repo apply $D/patch.diff || { echo "PATCH DOES NOT APPLY"; exit 2; }
  cp -r /verif/harness $S/harness; sed -i "s#path = \"/repo\"#path = \"$S/repo\"#" $S/harness/Cargo.toml
  mkdir -p $S/build; cp -r /verif/build/cargo $S/build/cargo 2>/dev/null
  echo "== running checks against scratch tree $S/repo: $CHECKS (tier $TIER)"
  for c in $CHECKS; do (cd /verif && VERIF_REPO=$S/repo VERIF_HARNESS=$S/harness VERIF_BUILD=$S/build VERIF_OUT=$S timeout 3000 ./check $c --tier $TIER 2>&1 | cut -c1-900 | head -6); done
  # Gen files were regenerated from the scratch tree inside /verif/lean: regenerate them from /repo again
  python3 /verif/tools/extract.py /repo /verif/lean/Heathcliff/Gen > /dev/null
  git -C /repo worktree remove --force $S/repo; rm -rf $S/build $S/harness
else
  echo "== applying patch to /repo and running checks: $CHECKS (tier $TIER)"
  git -C /repo apply $D/patch.diff || { echo "PATCH DOES NOT APPLY"; exit 2; }
  for c in $CHECKS; do (cd /verif && timeout 3000 ./check $c --tier $TIER 2>&1 | cut -c1-900 | head -6); done
  git -C /repo checkout -- . ; git -C /repo status --short | head -3
fi
