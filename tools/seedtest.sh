#!/bin/bash
# usage: tools/seedtest.sh <Cnn> <mutation dir, e.g. /tmp/mut/C08> [checks to run, default: the property itself]
# Confirms a seeded change in the sub-agent's scratch worktree (builds, existing suite passes, demonstration fails with the change and
# passes without it), then applies the library patch to /repo, runs the registered check(s), and undoes the patch straight afterwards.
set -u
P=$1; D=$2; shift 2; CHECKS=${@:-$P}
W=$D/repo; export CARGO_TARGET_DIR=$D/target
meta() { python3 -c "import json,sys; print(json.load(open('$D/meta.json')).get('$1',''))"; }
DEMO=$(meta demo_cmd)
echo "== demo with the change:"; (cd $W && bash -c "$DEMO" > $D/demo_with.log 2>&1); RW=$?; echo "exit $RW"
echo "== build + existing suite with the change:"
(cd $W && cargo build --offline 2>&1 | tail -1 && cargo build --offline --features verif 2>&1 | tail -1 && cargo nextest run --offline 2>&1 | grep -E "Summary|FAIL" | head -5)
echo "== demo without the change:"; (cd $W && git stash push -q -- src && bash -c "$DEMO" > $D/demo_without.log 2>&1; R0=$?; git stash pop -q; echo "exit $R0")
echo "== applying patch to /repo and running checks: $CHECKS"
git -C /repo apply $D/patch.diff || { echo "PATCH DOES NOT APPLY"; exit 2; }
for c in $CHECKS; do (cd /verif && timeout 3000 ./check $c --tier quick 2>&1 | cut -c1-700 | head -6); done
git -C /repo checkout -- . ; git -C /repo status --short | head -3
