#!/usr/bin/env python3
"""Builds a Props file from statement files: every `theorem NAME binders : stmt := sorry` becomes the same statement in the
property namespace, proved by the helper lemma `HC.NAME` of the Proofs files (statement text is kept verbatim).
usage: mkprops.py <out.lean> <namespace> <imports,comma> <stmt files...> [--skip a,b]"""
import sys, re
out, ns, imports = sys.argv[1], sys.argv[2], sys.argv[3].split(",")
files = [a for a in sys.argv[4:] if not a.startswith("--")]
skip = set()
for a in sys.argv[4:]:
    if a.startswith("--skip="): skip = set(a[7:].split(","))
body = []; names = []
for f in files:
    src = open(f).read()
    # split on top-level 'theorem'
    for m in re.finditer(r"((?:/--(?:(?!-/).)*-/\s*)?)theorem\s+(\S+)(.*?):=\s*sorry", src, flags=re.S):
        doc, name, rest = m.group(1), m.group(2), m.group(3)
        if name in skip: continue
        # explicit binder names, in order, up to the top-level colon
        depth = 0; i = 0; binders = ""
        while i < len(rest):
            c = rest[i]
            if c in "({[⦃": depth += 1
            elif c in ")}]⦄": depth -= 1
            elif c == ":" and depth == 0: break
            i += 1
        binders = rest[:i]
        args = []
        # top-level explicit binder groups only
        d = 0; start = None
        for j, c in enumerate(binders):
            if c in "({[⦃":
                if d == 0 and c == "(": start = j
                d += 1
            elif c in ")}]⦄":
                d -= 1
                if d == 0 and start is not None:
                    grp = binders[start+1:j]; start = None
                    if ":" in grp: args += grp.split(":")[0].split()
        body.append(f"{doc}theorem {name}{rest}:= HC.{name} {' '.join(args)}\n")
        names.append(name)
hdr = "".join(f"import {i}\n" for i in imports)
open(out, "w").write(hdr + f"\n/- Property theorems only (statements verbatim; proofs are the helper lemmas of Heathcliff/Proofs). -/\nnamespace {ns}\nopen HC\nvariable {{m : Modulus}}\n\n" + "\n".join(body) + f"\nend {ns}\n")
print("\n".join(f"#print axioms {ns}.{n}" for n in names))
