"""Phase 4m (worker A, round 7): table entries of Gen/DecFns.lean - the decryptor's norm / budget / correction-factor code of
src/encryptor.rs (`poly_infty_norm`, the arithmetic tail of `invariant_noise_budget`, the BGV fix-up of `bgv_decrypt`, the index
arithmetic of `dot_product_ct_sk_array`) and the multi-word helpers of src/util/basic.rs they call.
(imported by rs2lean.py; kept in its own module so that merges with other workers' tables stay trivial)."""
UB = "src/util/basic.rs"
ENC = "src/encryptor.rs"

TABLE_DEC = [
    {"file": UB, "fn": "add_uint_u64_inplace", "model": "addUintU64 a w a.len()"},
    {"file": UB, "fn": "increment_uint_inplace", "model": "addUintU64 a 1 a.len()"},
    {"file": UB, "fn": "half_round_up_uint", "model": "halfRoundUp"},
    {"file": UB, "fn": "is_greater_than_uint", "model": "compareUint a b = 1"},
    {"file": UB, "fn": "get_significant_bit_count_uint", "model": "bitCountUint",
     "loops": [{"fuel": "(a0.length + 1)", "exhausted": "error"}]},
    {"file": UB, "fn": "get_significant_uint64_count_uint", "model": "sigWords",
     "loops": [{"fuel": "(a0.length + 1)", "exhausted": "error"}]},
    {"file": ENC, "fn": "poly_infty_norm", "whole_copy": True, "model": "the fold of noiseBudget (Model/Scheme.lean) on multi-word coefficients"},
]

PRELUDE_DEC = """/-- `x.copy_from_slice(src)` of a whole slice: panics unless the lengths agree -/
def copyWhole (x src : List Nat) : R (List Nat) := if src.length = x.length then .ok src else .error .refused
/-- `Vec::resize(n, fill)` -/
def resizeL (l : List Nat) (n fill : Nat) : List Nat := l.take n ++ List.replicate (n - l.length) fill
"""
SPEC = {"ns": "GenDec", "imports": ["Heathcliff.Gen.Word2Fns", "Heathcliff.Gen.RnsFns", "Heathcliff.Model.Scheme"], "table": TABLE_DEC, "opens": ["HC.GenW", "HC.GenR"],
        "prelude": PRELUDE_DEC}

# ---- skeletons (the objects are opaque; the TRUSTED reading of accessors / opaque steps is spelled out here, see notes/work7-A.md) ----
CD = "self.context.get_context_data(encrypted.parms_id()).unwrap()"
# `invariant_noise_budget`: checks, then the opaque data steps on `noise_poly` recorded as a plan (1 = dot_product_ct_sk_array into noise_poly,
# 2 = multiply_scalar_inplace_p by t (BFV only), 3 = compose_array in place: `noise_poly` := the pseudo-input `composed`), then the REAL
# `poly_infty_norm` / `get_significant_bit_count_uint` calls and the bit-count difference.
SK_BUDGET = {
    "keep_tail": True,
    "sig": "fn invariant_noise_budget(valid: bool, size: usize, scheme: SchemeType, is_ntt: bool, q_size: usize, n: usize, total_q: &[u64], "
           "total_bits: usize, composed: &[u64], plan: &mut Vec<u64>) -> usize",
    "handles": [CD, CD + ".parms()", CD + ".parms().coeff_modulus()", CD + ".parms().plain_modulus()"],
    "exprs": {"!encrypted.is_valid_for(&self.context)": "!valid", "encrypted.size()": "size",
              "self.context.key_context_data().unwrap().parms().scheme()": "scheme", "encrypted.is_ntt_form()": "is_ntt",
              CD + ".parms().coeff_modulus().len()": "q_size", CD + ".parms().poly_modulus_degree()": "n",
              CD + ".total_coeff_modulus()": "total_q", CD + ".total_coeff_modulus_bit_count()": "total_bits"},
    "effects": {"self.dot_product_ct_sk_array(encrypted, $p.as_mut_slice())": "plan.push(1);",
                "polymod::multiply_scalar_inplace_p(&$p, " + CD + ".parms().plain_modulus().value(), $c, " + CD + ".parms().coeff_modulus())": "plan.push(2);",
                CD + ".rns_tool().base_q().compose_array(&$p)": "plan.push(3); $p.copy_from_slice(composed);"},
}
TABLE_DEC += [
    {"file": ENC, "fn": "invariant_noise_budget", "impl": "Decryptor", "lean": "dec_invariant_noise_budget", "skeleton": SK_BUDGET, "whole_copy": True,
     "consts": {"HE_CIPHERTEXT_SIZE_MIN": UB}, "model": "noiseBudget (tail: norm + bit-count difference)"},
]

# `bgv_decrypt`: the opaque data steps recorded as a plan (1 = dot_product_ct_sk_array into tmp_dest_modq, 2 = intt_p of it, 3 = decrypt_mod_t
# (tied in phase 4k) writing the pseudo-input `dec` into the destination's n words); then the REAL correction-factor fix-up
# (`try_invert_u64_mod` of Gen/WordFns.lean, `multiply_scalar_inplace` of Gen/PolyFns.lean) and the trimming
# (`get_significant_uint64_count_uint`, `resize(max(count, 1))`).  `Plaintext::resize(k)` is read as `data.resize(k, 0)`.
SK_BGV = {
    "sig": "fn bgv_decrypt(is_ntt: bool, n: usize, q_size: usize, cf: u64, t: &Modulus, dec: &[u64], d: &mut Vec<u64>, plan: &mut Vec<u64>)",
    "handles": [CD, CD + ".parms()", CD + ".parms().coeff_modulus()"],
    "exprs": {"encrypted.is_ntt_form()": "is_ntt", CD + ".parms().poly_modulus_degree()": "n", CD + ".parms().coeff_modulus().len()": "q_size",
              CD + ".parms().plain_modulus()": "t", "encrypted.correction_factor()": "cf",
              "destination.data_mut()": "d", "destination.data()": "d"},
    "effects": {"destination.set_parms_id(PARMS_ID_ZERO)": "",
                "destination.resize($c)": "d.resize($c, 0);",
                "destination.resize($c.max(1))": "d.resize($c.max(1), 0);",
                "self.dot_product_ct_sk_array(encrypted, &$p)": "plan.push(1);",
                "polymod::intt_p(&$p, $c, " + CD + ".small_ntt_tables())": "plan.push(2);",
                CD + ".rns_tool().decrypt_mod_t(&$p, destination.data_mut())": "plan.push(3); d.copy_from_slice(dec);"},
}
TABLE_DEC += [
    {"file": ENC, "fn": "bgv_decrypt", "impl": "Decryptor", "lean": "dec_bgv_decrypt", "skeleton": SK_BGV, "whole_copy": True,
     "model": "bgvDecrypt (correction-factor fix-up + trimPlain)"},
]

# `dot_product_ct_sk_array`: the index / stride arithmetic and the ORDER of the kernel calls as a plan (the kernels themselves - `dyadic_product_p`,
# `add_inplace_p`, `ntt_p`, `intt_p`, tied in phases 4b / 4e - are opaque steps).  Codes:
#   100 m            compute_secret_key_array(m)
#   size = 2:  10 = dest := c1 * sk[0..]   11 = dest += c0   12 = dest := c1   13 = ntt_p(dest)   14 = dest *= sk[0..]   15 = intt_p(dest)
#   size > 2:  21 m = ntt_ps(copy, m)   20 lo hi klo khi = copy[lo..hi] *= sk[klo..khi]   22 = dest.fill(0)   23 lo hi = dest += copy[lo..hi]
#              15 = intt_p(dest)   25 = dest += c0
# `ct` = `encrypted.data()` (only its length is observable here: the tail copy and its `assert_eq!`).
RAW0 = "std::slice::from_raw_parts(encrypted.poly(0).as_ptr(), $n * $k)"
RAW1 = "std::slice::from_raw_parts(encrypted.poly(1).as_ptr(), $n * $k)"
SKA = "self.secret_key_array.read().unwrap().as_ref()"
CM = CD + ".parms().coeff_modulus()"
NT = CD + ".small_ntt_tables()"
SK_DOT = {
    "unsafe_inline": True,
    "sig": "fn dot_product_ct_sk_array(ct: &[u64], size: usize, is_ntt: bool, n: usize, q_size: usize, key_q_size: usize, plan: &mut Vec<u64>)",
    "handles": [CD, CD + ".parms()", CM, NT, "self.secret_key_array.read().unwrap()", SKA, RAW0, RAW1],
    "exprs": {CM + ".len()": "q_size", CD + ".parms().poly_modulus_degree()": "n", "encrypted.size()": "size",
              "self.context.key_context_data().unwrap().parms().coeff_modulus().len()": "key_q_size",
              "encrypted.is_ntt_form()": "is_ntt", "encrypted.data()": "ct"},
    "effects": {"self.compute_secret_key_array($s - 1)": "plan.push(100); plan.push(($s - 1) as u64);",
                "polymod::dyadic_product_p(%s, %s, $c, %s, destination)" % (RAW1.replace("$n", "$n1").replace("$k", "$k1"), SKA, CM): "plan.push(10);",
                "polymod::add_inplace_p(destination, %s, $c, %s)" % (RAW0.replace("$n", "$n0").replace("$k", "$k0"), CM): "plan.push(11);",
                "destination.copy_from_slice(%s)" % RAW1.replace("$n", "$n1").replace("$k", "$k1"): "plan.push(12);",
                "polymod::ntt_p(destination, $c, %s)" % NT: "plan.push(13);",
                "polymod::dyadic_product_inplace_p(destination, %s, $c, %s)" % (SKA, CM): "plan.push(14);",
                "polymod::intt_p(destination, $c, %s)" % NT: "plan.push(15);",
                "polymod::ntt_ps(&$e, $s - 1, $c, %s)" % NT: "plan.push(21); plan.push(($s - 1) as u64);",
                "polymod::dyadic_product_inplace_p(&$e[$i * $p..($i + 1) * $p], &%s[$i * $kp..$i * $kp + $p], $c, %s)" % (SKA, CM):
                    "plan.push(20); plan.push(($i * $p) as u64); plan.push((($i + 1) * $p) as u64); plan.push(($i * $kp) as u64); plan.push(($i * $kp + $p) as u64);",
                "destination.fill(0)": "plan.push(22);",
                "polymod::add_inplace_p(destination, &$e[$i * $p..($i + 1) * $p], $c, %s)" % CM:
                    "plan.push(23); plan.push(($i * $p) as u64); plan.push((($i + 1) * $p) as u64);",
                "polymod::add_inplace_p(destination, encrypted.poly(0), $c, %s)" % CM: "plan.push(25);"},
}
TABLE_DEC += [
    {"file": ENC, "fn": "dot_product_ct_sk_array", "impl": "Decryptor", "lean": "dec_dot_product_plan", "skeleton": SK_DOT, "nested_loops": True, "push_carried": True,
     # the scheduling hook of the verification feature (`/repo/src/verif.rs`, no data effect) is erased, pinned to the exact statement
     "pre_text": __import__("rs2lean_rns4k").float_erase([('#[cfg(feature = "verif")] crate::verif::sched::yield_at(4);', 1, "")]),
     "model": "dotProductCtSk (index / stride arithmetic, order of the kernel calls)"},
]

# `bfv_decrypt` / `ckks_decrypt` / `decrypt`: refusals, order of the opaque steps (1 = dot_product_ct_sk_array, 4 = decrypt_scale_and_round (tied in
# phase 4k) writing the pseudo-input `dec` into the destination's n words, 5 = set_parms_id(encrypted.parms_id()), 6 = set_scale(encrypted.scale()),
# 31 / 32 / 33 = dispatch to bfv / ckks / bgv), the sizes of the destination and the trimming.
SK_BFV = {
    "sig": "fn bfv_decrypt(is_ntt: bool, n: usize, q_size: usize, dec: &[u64], d: &mut Vec<u64>, plan: &mut Vec<u64>)",
    "handles": [CD, CD + ".parms()", CD + ".parms().coeff_modulus()"],
    "exprs": {"encrypted.is_ntt_form()": "is_ntt", CD + ".parms().poly_modulus_degree()": "n", CD + ".parms().coeff_modulus().len()": "q_size",
              "destination.data()": "d"},
    "effects": {"destination.set_parms_id(PARMS_ID_ZERO)": "",
                "destination.resize($c)": "d.resize($c, 0);",
                "destination.resize($c.max(1))": "d.resize($c.max(1), 0);",
                "self.dot_product_ct_sk_array(encrypted, &$p)": "plan.push(1);",
                CD + ".rns_tool().decrypt_scale_and_round(&$p, destination.data_mut())": "plan.push(4); d.copy_from_slice(dec);"},
}
SK_CKKS = {
    "sig": "fn ckks_decrypt(is_ntt: bool, n: usize, q_size: usize, ph: &[u64], d: &mut Vec<u64>, plan: &mut Vec<u64>)",
    "handles": [CD, CD + ".parms()", CD + ".parms().coeff_modulus()"],
    "exprs": {"encrypted.is_ntt_form()": "is_ntt", CD + ".parms().poly_modulus_degree()": "n", CD + ".parms().coeff_modulus().len()": "q_size"},
    "effects": {"destination.set_parms_id(PARMS_ID_ZERO)": "",
                "destination.resize($c)": "d.resize($c, 0);",
                "self.dot_product_ct_sk_array(encrypted, destination.data_mut())": "plan.push(1); d.copy_from_slice(ph);",
                "destination.set_parms_id(*encrypted.parms_id())": "plan.push(5);",
                "destination.set_scale(encrypted.scale())": "plan.push(6);"},
}
SK_DECRYPT = {
    "match_stmt": True,
    "sig": "fn decrypt(has_seed: bool, valid: bool, size: usize, scheme_in: SchemeType, plan: &mut Vec<u64>)",
    "exprs": {"encrypted.contains_seed()": "has_seed", "!encrypted.is_valid_for(&self.context)": "!valid", "encrypted.size()": "size",
              "self.context.first_context_data().unwrap().parms().scheme()": "scheme_in"},
    "effects": {"self.bfv_decrypt(encrypted, destination)": "plan.push(31);", "self.ckks_decrypt(encrypted, destination)": "plan.push(32);",
                "self.bgv_decrypt(encrypted, destination)": "plan.push(33);"},
}
TABLE_DEC += [
    {"file": ENC, "fn": "bfv_decrypt", "impl": "Decryptor", "lean": "dec_bfv_decrypt", "skeleton": SK_BFV, "whole_copy": True, "model": "bfvDecrypt (order, sizes, trimPlain)"},
    {"file": ENC, "fn": "ckks_decrypt", "impl": "Decryptor", "lean": "dec_ckks_decrypt", "skeleton": SK_CKKS, "whole_copy": True, "model": "ckksDecrypt (the phase itself)"},
    {"file": ENC, "fn": "decrypt", "impl": "Decryptor", "lean": "dec_decrypt_dispatch", "skeleton": SK_DECRYPT, "consts": {"HE_CIPHERTEXT_SIZE_MIN": UB},
     "panic_escape": True, "model": "dispatch on the scheme"},
]
