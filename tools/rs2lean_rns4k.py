"""Phase 4k (worker Q): table entries of Gen/RnsFns.lean for the rest of the BEHZ layer of src/util/rns.rs
(imported by rs2lean.py; kept in its own module so that merges with other workers' tables stay trivial)."""
UR = "src/util/rns.rs"
TG = "self.base_t_gamma.as_ref().unwrap()"
TABLE_RNS_4K = [
    {"file": UR, "fn": "decrypt_scale_and_round", "impl": "RNSTool", "model": "RNSTool.decryptScaleAndRound", "nested_loops": True,
     "abstract": [("self.base_q.len()", "qSize", "Nat"), ("self.base_q.base_at(#)", "baseQ", "List Modulus"),
                  (TG,),
                  (TG + ".len()", "tGammaSize", "Nat"), (TG + ".base_at(#)", "baseTGamma", "List Modulus"),
                  ("self.coeff_count", "coeffCount", "Nat"),
                  ("self.prod_t_gamma_mod_q.as_ref().unwrap()[#]", "prodTGammaModQ", "List MulOperand"),
                  ("self.neg_inv_q_mod_t_gamma.as_ref().unwrap()[#]", "negInvQModTGamma", "List MulOperand"),
                  ("self.t", "tMod", "Modulus"), ("self.gamma", "gammaMod", "Modulus"),
                  ("self.base_q_to_t_gamma_conv",),
                  ("self.inv_gamma_mod_t.as_ref().unwrap()", "invGammaModT", "MulOperand")],
     "extern": [{"rcall": "self.base_q_to_t_gamma_conv.as_ref().unwrap().fast_convert_array", "binder": "qToTGammaF"}]},
]
