"""Phase 4k (worker Q): table entries of Gen/RnsFns.lean for the rest of the BEHZ layer of src/util/rns.rs
(imported by rs2lean.py; kept in its own module so that merges with other workers' tables stay trivial)."""
UR = "src/util/rns.rs"


# ---- phase 4k: element borrows `let d = &mut X[E];` (table flag `elem_borrows`), rewritten BEFORE the lowering into
#   let d__ix = E;  let d__at = X[d__ix];      (the index is evaluated once, the bounds check happens at the borrow, as in Rust)
# and, in the rest of the same block, `*d` |-> `X[d__ix]` (reads and assignments).  Any other use of `d`, a `mut` binding, a typed binding,
# an `X` that is not a plain variable, a range index are refused.  (While `d` is live Rust's borrow checker forbids every other access to `X`,
# so reading / writing `X[d__ix]` in place is the same thing.)
def _sp(e):
    while isinstance(e, tuple) and e and e[0] == "paren": e = e[1]
    return e

def _subst_borrow(x, d, repl, fail):
    if isinstance(x, list): return [_subst_borrow(y, d, repl, fail) for y in x]
    if not isinstance(x, tuple) or not x: return x
    if x[0] == "deref":
        b = _sp(x[1])
        if b[0] == "path" and b[1] == [d]: return repl
    if x[0] == "path" and x[1] == [d]: fail(f"element borrow `{d}` used other than as `*{d}`")
    if x[0] == "let" and x[1] == d: fail(f"element borrow `{d}` is shadowed")
    if x[0] == "closure": fail(f"closure in the scope of the element borrow `{d}`")
    return tuple(_subst_borrow(y, d, repl, fail) if isinstance(y, (tuple, list)) else y for y in x)

def desugar_elem_borrows(x, fail):
    def block(blk):
        stmts, tail = blk
        out = []; i = 0
        stmts = list(stmts)
        while i < len(stmts):
            s = stmts[i]
            if isinstance(s, tuple) and s and s[0] == "let" and isinstance(s[1], str) and s[4] is not None:
                i0 = _sp(s[4])
                if i0[0] == "ref" and i0[1]:
                    tgt = _sp(i0[2])
                    if not (tgt[0] == "index" and _sp(tgt[1])[0] == "path" and len(_sp(tgt[1])[1]) == 1 and _sp(tgt[2])[0] != "range"):
                        fail("`let d = &mut ..` of anything but an element `x[i]` of a slice variable")
                    if s[2] or s[3] is not None: fail("element borrow bound `mut` / with a type annotation")
                    d = s[1]; ix = d + "__ix"; ln = s[5]
                    repl = ("index", _sp(tgt[1]), ("path", [ix]))
                    out.append(("let", ix, False, None, tgt[2], ln))
                    out.append(("let", d + "__at", False, None, repl, ln))
                    stmts = stmts[:i + 1] + _subst_borrow(stmts[i + 1:], d, repl, fail)
                    if tail is not None: tail = _subst_borrow(tail, d, repl, fail)
                    i += 1; continue
            out.append(walk(s)); i += 1
        return (out, None if tail is None else walk(tail))
    def walk(x):
        if isinstance(x, list): return [walk(y) for y in x]
        if not isinstance(x, tuple) or not x: return x
        # a block is a pair (list of statements, tail expression or None)
        if len(x) == 2 and isinstance(x[0], list) and (x[1] is None or isinstance(x[1], tuple)) and all(isinstance(t, tuple) for t in x[0]):
            return block(x)
        return tuple(walk(y) if isinstance(y, (tuple, list)) else y for y in x)
    return block(x)


# ---- phase 4k: `enumerate()` chains (table flag `enum_iters`), rewritten BEFORE the lowering (documented readings of the std iterators):
#  (a)  RECV.iter().enumerate().for_each(|(i, e)| BODY)      |->  for i in 0..RECV.len() { let e = &RECV[i]; BODY }
#  (b)  Y.chunks(K).enumerate().for_each(|(j, c)| BODY)      |->  let c__k = K; assert!(c__k != 0);                  (`chunks(0)` panics)
#                                                                 let mut c__n = Y.len() / c__k; if Y.len() % c__k != 0 { c__n = c__n + 1; }
#                                                                 for j in 0..c__n { let c__lo = j * c__k;
#                                                                     let c__hi = if Y.len() - c__lo < c__k { Y.len() } else { c__lo + c__k };
#                                                                     BODY[c := &Y[c__lo..c__hi]] }
#       (Y a plain slice variable; the chunk may only be used as a whole, e.g. as a `&[u64]` argument; the last chunk may be shorter).
#  Closures must be literal with a pair pattern of two plain names; anything else is refused.
def _subst_path(x, name, repl, fail):
    if isinstance(x, list): return [_subst_path(y, name, repl, fail) for y in x]
    if not isinstance(x, tuple) or not x: return x
    if x[0] == "path" and x[1] == [name]: return repl
    if x[0] == "let" and x[1] == name: fail(f"iterator variable `{name}` is shadowed")
    return tuple(_subst_path(y, name, repl, fail) if isinstance(y, (tuple, list)) else y for y in x)

def desugar_enumerate(x, fail, fname):
    from rs2lean import parse_snippet
    def unparse_recv(e):
        e = _sp(e)
        if e[0] == "path": return "::".join(e[1])
        if e[0] == "field": return unparse_recv(e[1]) + "." + e[2]
        fail("enumerate chain: receiver is not a variable / field chain")
    def for_each(e, ln):
        clo = _sp(e[3][0]) if len(e[3]) == 1 else None
        if clo is None or clo[0] != "closure" or len(clo[1]) != 1 or clo[1][0][1] is not None: fail("for_each without a one-parameter closure literal")
        pat = clo[1][0][0]
        if not (isinstance(pat, tuple) and pat[0] == "tuplepat" and len(pat[1]) == 2 and all(isinstance(q, str) for q in pat[1])):
            fail("enumerate closure parameter must be a pair of plain names")
        ix, el = pat[1]
        en = _sp(e[1])
        if not (en[0] == "mcall" and en[2] == "enumerate" and not en[3]): return None
        src = _sp(en[1])
        body = block((list(clo[2][0]), clo[2][1]))
        bstmts = body[0] + ([("expr", body[1], ln)] if body[1] is not None else [])
        if src[0] == "mcall" and src[2] == "iter" and not src[3]:
            r = unparse_recv(src[1])
            loop = parse_snippet(f"for {ix} in 0..{r}.len() {{ let {el} = &{r}[{ix}]; }}", "stmts", fname)
            assert len(loop) == 1 and loop[0][0] == "for"
            f = loop[0]
            return [("for", f[1], f[2], (list(f[3][0]) + bstmts, None), ln)]
        if src[0] == "mcall" and src[2] == "chunks" and len(src[3]) == 1:
            y = _sp(src[1])
            if not (y[0] == "path" and len(y[1]) == 1): fail("`chunks` of anything but a slice variable")
            yv = y[1][0]; k, n, lo, hi = el + "__k", el + "__n", el + "__lo", el + "__hi"
            pre = parse_snippet(f"let {k} = 0; assert!({k} != 0); let mut {n} = {yv}.len() / {k}; if {yv}.len() % {k} != 0 {{ {n} = {n} + 1; }} "
                                f"for {ix} in 0..{n} {{ let {lo} = {ix} * {k}; let {hi} = if {yv}.len() - {lo} < {k} {{ {yv}.len() }} else {{ {lo} + {k} }}; }}",
                                "stmts", fname)
            assert pre[0][0] == "let" and pre[-1][0] == "for"
            pre[0] = ("let", pre[0][1], pre[0][2], pre[0][3], src[3][0], ln)
            repl = ("ref", False, ("index", ("path", [yv]), ("range", ("path", [lo]), ("path", [hi]), False)))
            f = pre[-1]
            pre[-1] = ("for", f[1], f[2], (list(f[3][0]) + _subst_path(bstmts, el, repl, fail), None), ln)
            return pre
        fail("enumerate chain: only `x.iter().enumerate()` and `x.chunks(k).enumerate()` are accepted")
    def block(blk):
        stmts, tail = blk
        stmts = list(stmts)
        if tail is not None:
            t0 = _sp(tail)
            if t0[0] == "mcall" and t0[2] == "for_each": stmts.append(("expr", tail, None)); tail = None
        out = []
        for s in stmts:
            if isinstance(s, tuple) and s and s[0] == "expr":
                e = _sp(s[1])
                if e[0] == "mcall" and e[2] == "for_each":
                    r = for_each(e, s[2] if len(s) > 2 else None)
                    if r is not None: out += r; continue
            out.append(walk(s))
        return (out, None if tail is None else walk(tail))
    def walk(x):
        if isinstance(x, list): return [walk(y) for y in x]
        if not isinstance(x, tuple) or not x: return x
        if len(x) == 2 and isinstance(x[0], list) and (x[1] is None or isinstance(x[1], tuple)) and all(isinstance(t, tuple) for t in x[0]):
            return block(x)
        return tuple(walk(y) if isinstance(y, (tuple, list)) else y for y in x)
    return block(x)


# ---- phase 4k: FLOAT ERASURE (table key `pre_text` = float_erase([...])): the f64 pipeline of a routine is replaced, statement by statement, by
# its table-declared reading BEFORE parsing.  Each entry (pattern, count, replacement) is a whole statement (tokens, `$x` = one identifier; a
# wildcard keeps its binding across entries); it must match exactly `count` times at statement starts, else the extraction fails.  A float
# statement that was changed no longer matches, stays in the text and is refused by the parser / lowering (f64 is outside the subset): nothing
# about the floats is guessed, the reading is pinned to the exact statements.
def float_erase(entries):
    import re
    def run(text, fname):
        from rs2lean import tokenize, Unsupported
        norm = " ".join(t[1] for t in tokenize(text)[:-1])
        bound = {}
        for (pat, count, rep) in entries:
            ptoks = [t[1] for t in tokenize(re.sub(r"\$(\w+)", r"WILD__\1", pat))[:-1]]
            seen = set(); parts = []
            for t in ptoks:
                m = re.fullmatch(r"WILD__(\w+)", t)
                if m:
                    n = m.group(1)
                    if n in bound: parts.append(re.escape(bound[n]))
                    elif n in seen: parts.append("(?P=%s)" % n)
                    else: seen.add(n); parts.append("(?P<%s>[A-Za-z_][A-Za-z0-9_]*)" % n)
                else: parts.append(re.escape(t))
            rx = re.compile(r"(?<=[{};] )" + " ".join(parts))
            ms = list(rx.finditer(norm))
            if len(ms) != count:
                raise Unsupported(f"fn {fname}: float erasure: statement `{pat}` found {len(ms)} times (the table expects {count})")
            for m in ms:
                for n, v in m.groupdict().items():
                    if bound.setdefault(n, v) != v: raise Unsupported(f"fn {fname}: float erasure: `${n}` is bound to both `{bound[n]}` and `{v}`")
            def sub(m):
                r = rep
                for n, v in bound.items(): r = re.sub(r"\$" + n + r"\b", v, r)
                if "$" in r: raise Unsupported(f"fn {fname}: float erasure: unbound wildcard in the replacement `{rep}`")
                return " ".join(t[1] for t in tokenize(r)[:-1])
            norm = re.sub(r" +", " ", rx.sub(sub, norm))
        return norm
    return run

EXACT_CONVEY_FLOATS = float_erase([
    ("let mut $v = vec![0f64; $c * $k];", 1, ""),
    ("let $d = $m.value() as f64;", 1, ""),
    ("let $e = $t[$j * $k + $i] as f64;", 2, ""),
    ("$v[$j * $k + $i] = $e / $d;", 2, ""),
    # the rounded sum of the quotients of ONE coefficient is a function of its scaled residues `temp[i*k .. (i+1)*k]` (and of the moduli, fixed per converter)
    ("let $s: f64 = $v[($a * $k)..(($a + 1) * $k)].iter().sum();", 1, "let $s = round_q(&$t[($a * $k)..(($a + 1) * $k)]);"),
    ("$r[$a] = $s.round() as u64;", 1, "$r[$a] = $s;"),
])

TG = "self.base_t_gamma.as_ref().unwrap()"
TABLE_RNS_4K = [
    {"file": UR, "fn": "decrypt_scale_and_round", "impl": "RNSTool", "model": "RNSTool.decryptScaleAndRound", "nested_loops": True,
     "abstract": [("self.base_q.len()", "qSize", "Nat"), ("self.base_q.base_at(#)", "baseQ", "List Modulus"),
                  (TG,),
                  (TG + ".len()", "tGammaSize", "Nat"), (TG + ".base_at(#)", "baseTGamma", "List Modulus"),
                  ("self.coeff_count", "coeffCount", "Nat"),
                  ("self.prod_t_gamma_mod_q.as_ref().unwrap()[#]", "prodTGammaModQ", "List MulOperand"),
                  ("self.neg_inv_q_mod_t_gamma.as_ref().unwrap()[#]", "negInvQModTGamma", "List MulOperand"),
                  ("self.t", "tMod", "Modulus"), ("self.gamma", "gammaMod", "Modulus"),
                  ("self.base_q_to_t_gamma_conv",),
                  ("self.inv_gamma_mod_t.as_ref().unwrap()", "invGammaModT", "MulOperand")],
     "extern": [{"rcall": "self.base_q_to_t_gamma_conv.as_ref().unwrap().fast_convert_array", "binder": "qToTGammaF"}]},
    {"file": UR, "fn": "fastbconv_sk", "impl": "RNSTool", "model": "RNSTool.fastbconvSk", "nested_loops": True, "elem_borrows": True,
     "abstract": [("self.base_q.len()", "qSize", "Nat"), ("self.base_B.len()", "bSize", "Nat"), ("self.coeff_count", "coeffCount", "Nat"),
                  ("self.m_sk", "mSk", "Modulus"), ("self.inv_prod_B_mod_m_sk", "invProdBModMsk", "MulOperand"),
                  ("self.base_q.base_at(#)", "baseQ", "List Modulus"), ("self.prod_B_mod_q[#]", "prodBModQ", "List Nat")],
     "extern": [{"rcall": "self.base_B_to_q_conv.fast_convert_array", "binder": "bToQF"},
                {"rcall": "self.base_B_to_m_sk_conv.fast_convert_array", "binder": "bToMskF"}]},
    {"file": UR, "fn": "fastbconv_m_tilde", "impl": "RNSTool", "model": "RNSTool.fastbconvMTilde", "nested_loops": True,
     "abstract": [("self.base_q.len()", "qSize", "Nat"), ("self.base_Bsk.len()", "bskSize", "Nat"), ("self.coeff_count", "coeffCount", "Nat"),
                  ("self.m_tilde", "mTilde", "Modulus"), ("self.base_q.base()", "baseQ", "List Modulus")],
     "extern": [{"rcall": "self.base_q_to_Bsk_conv.fast_convert_array", "binder": "qToBskF"},
                {"rcall": "self.base_q_to_m_tilde_conv.fast_convert_array", "binder": "qToMtF"}]},
    {"file": UR, "fn": "decompose", "impl": "RNSBase", "lean": "rnsbase_decompose", "model": "RNSBase.decompose", "nested_loops": True,
     "abstract": [("self.base.len()", "size", "Nat"), ("self.base[#]", "base", "List Modulus")]},
    {"file": UR, "fn": "decompose_array", "impl": "RNSBase", "lean": "rnsbase_decompose_array", "model": "(RNSBase.decompose on every column)", "nested_loops": True,
     "enum_iters": True, "abstract": [("self.base.len()", "size", "Nat"), ("self.base[#]", "base", "List Modulus")]},
    {"file": UR, "fn": "exact_convey_array", "impl": "BaseConverter", "model": "BaseConverter.exactConvey (column by column)", "nested_loops": True,
     "pre_text": EXACT_CONVEY_FLOATS,
     "abstract": [("self.ibase.len()", "ibaseSize", "Nat"), ("self.obase.len()", "obaseSize", "Nat"),
                  ("self.ibase.inv_punctured_prod_mod_base()[#]", "invPunct", "List MulOperand"),
                  ("self.ibase.base_at(#)", "ibase", "List Modulus"), ("self.obase.base_at(#)", "obase", "List Modulus"),
                  ("self.ibase.base_prod()", "ibaseProd", "List Nat"),
                  ("self.base_change_matrix[#]", "matrix", "List (List Nat)")],
     "extern": [{"fcall": "round_q", "binder": "roundQ"}]},
    {"file": UR, "fn": "decrypt_mod_t", "impl": "RNSTool", "model": "RNSTool.decryptModT",
     "extern": [{"rcall": "self.base_q_to_t_conv.as_ref().unwrap().exact_convey_array", "binder": "qToTF"}]},
    {"file": "src/util/basic.rs", "fn": "set_zero_uint", "model": "List.replicate n 0"},
    # `return set_zero_uint(x);` (a `return` of a unit call) is read as `set_zero_uint(x); return;`
    {"file": "src/util/basic.rs", "fn": "multiply_uint_u64", "model": "multiplyUintU64",
     "pre_text": float_erase([("return set_zero_uint($r);", 1, "set_zero_uint($r); return;")])},
]
# Gen/Rns2Fns.lean (phase 4k): routines of src/util/rns.rs that call functions of Gen/Word2Fns.lean (generated after Gen/RnsFns.lean)
TABLE_RNS2_4K = [
    {"file": UR, "fn": "compose", "impl": "RNSBase", "lean": "rnsbase_compose", "model": "RNSBase.compose", "nested_loops": True,
     "abstract": [("self.base.len()", "size", "Nat"), ("self.base[#]", "base", "List Modulus"),
                  ("self.inv_punctured_prod_mod_base[#]", "invPunct", "List MulOperand"),
                  ("self.punctured_prod[#]", "punct", "List (List Nat)"), ("self.base_prod", "baseProd", "List Nat")]},
]
