"""Phase 4k (worker Q): table entries of Gen/RnsFns.lean for the rest of the BEHZ layer of src/util/rns.rs
(imported by rs2lean.py; kept in its own module so that merges with other workers' tables stay trivial)."""
UR = "src/util/rns.rs"


# ---- phase 4k: element borrows `let d = &mut X[E];` (table flag `elem_borrows`), rewritten BEFORE the lowering into
#   let d__ix = E;  let d__at = X[d__ix];      (the index is evaluated once, the bounds check happens at the borrow, as in Rust)
# and, in the rest of the same block, `*d` |-> `X[d__ix]` (reads and assignments).  Any other use of `d`, a `mut` binding, a typed binding,
# an `X` that is not a plain variable, a range index are refused.  (While `d` is live Rust's borrow checker forbids every other access to `X`,
# so reading / writing `X[d__ix]` in place is the same thing.)
def _sp(e):
    while isinstance(e, tuple) and e and e[0] == "paren": e = e[1]
    return e

def _subst_borrow(x, d, repl, fail):
    if isinstance(x, list): return [_subst_borrow(y, d, repl, fail) for y in x]
    if not isinstance(x, tuple) or not x: return x
    if x[0] == "deref":
        b = _sp(x[1])
        if b[0] == "path" and b[1] == [d]: return repl
    if x[0] == "path" and x[1] == [d]: fail(f"element borrow `{d}` used other than as `*{d}`")
    if x[0] == "let" and x[1] == d: fail(f"element borrow `{d}` is shadowed")
    if x[0] == "closure": fail(f"closure in the scope of the element borrow `{d}`")
    return tuple(_subst_borrow(y, d, repl, fail) if isinstance(y, (tuple, list)) else y for y in x)

def desugar_elem_borrows(x, fail):
    def block(blk):
        stmts, tail = blk
        out = []; i = 0
        stmts = list(stmts)
        while i < len(stmts):
            s = stmts[i]
            if isinstance(s, tuple) and s and s[0] == "let" and isinstance(s[1], str) and s[4] is not None:
                i0 = _sp(s[4])
                if i0[0] == "ref" and i0[1]:
                    tgt = _sp(i0[2])
                    if not (tgt[0] == "index" and _sp(tgt[1])[0] == "path" and len(_sp(tgt[1])[1]) == 1 and _sp(tgt[2])[0] != "range"):
                        fail("`let d = &mut ..` of anything but an element `x[i]` of a slice variable")
                    if s[2] or s[3] is not None: fail("element borrow bound `mut` / with a type annotation")
                    d = s[1]; ix = d + "__ix"; ln = s[5]
                    repl = ("index", _sp(tgt[1]), ("path", [ix]))
                    out.append(("let", ix, False, None, tgt[2], ln))
                    out.append(("let", d + "__at", False, None, repl, ln))
                    stmts = stmts[:i + 1] + _subst_borrow(stmts[i + 1:], d, repl, fail)
                    if tail is not None: tail = _subst_borrow(tail, d, repl, fail)
                    i += 1; continue
            out.append(walk(s)); i += 1
        return (out, None if tail is None else walk(tail))
    def walk(x):
        if isinstance(x, list): return [walk(y) for y in x]
        if not isinstance(x, tuple) or not x: return x
        # a block is a pair (list of statements, tail expression or None)
        if len(x) == 2 and isinstance(x[0], list) and (x[1] is None or isinstance(x[1], tuple)) and all(isinstance(t, tuple) for t in x[0]):
            return block(x)
        return tuple(walk(y) if isinstance(y, (tuple, list)) else y for y in x)
    return block(x)

TG = "self.base_t_gamma.as_ref().unwrap()"
TABLE_RNS_4K = [
    {"file": UR, "fn": "decrypt_scale_and_round", "impl": "RNSTool", "model": "RNSTool.decryptScaleAndRound", "nested_loops": True,
     "abstract": [("self.base_q.len()", "qSize", "Nat"), ("self.base_q.base_at(#)", "baseQ", "List Modulus"),
                  (TG,),
                  (TG + ".len()", "tGammaSize", "Nat"), (TG + ".base_at(#)", "baseTGamma", "List Modulus"),
                  ("self.coeff_count", "coeffCount", "Nat"),
                  ("self.prod_t_gamma_mod_q.as_ref().unwrap()[#]", "prodTGammaModQ", "List MulOperand"),
                  ("self.neg_inv_q_mod_t_gamma.as_ref().unwrap()[#]", "negInvQModTGamma", "List MulOperand"),
                  ("self.t", "tMod", "Modulus"), ("self.gamma", "gammaMod", "Modulus"),
                  ("self.base_q_to_t_gamma_conv",),
                  ("self.inv_gamma_mod_t.as_ref().unwrap()", "invGammaModT", "MulOperand")],
     "extern": [{"rcall": "self.base_q_to_t_gamma_conv.as_ref().unwrap().fast_convert_array", "binder": "qToTGammaF"}]},
    {"file": UR, "fn": "fastbconv_sk", "impl": "RNSTool", "model": "RNSTool.fastbconvSk", "nested_loops": True, "elem_borrows": True,
     "abstract": [("self.base_q.len()", "qSize", "Nat"), ("self.base_B.len()", "bSize", "Nat"), ("self.coeff_count", "coeffCount", "Nat"),
                  ("self.m_sk", "mSk", "Modulus"), ("self.inv_prod_B_mod_m_sk", "invProdBModMsk", "MulOperand"),
                  ("self.base_q.base_at(#)", "baseQ", "List Modulus"), ("self.prod_B_mod_q[#]", "prodBModQ", "List Nat")],
     "extern": [{"rcall": "self.base_B_to_q_conv.fast_convert_array", "binder": "bToQF"},
                {"rcall": "self.base_B_to_m_sk_conv.fast_convert_array", "binder": "bToMskF"}]},
    {"file": UR, "fn": "fastbconv_m_tilde", "impl": "RNSTool", "model": "RNSTool.fastbconvMTilde", "nested_loops": True,
     "abstract": [("self.base_q.len()", "qSize", "Nat"), ("self.base_Bsk.len()", "bskSize", "Nat"), ("self.coeff_count", "coeffCount", "Nat"),
                  ("self.m_tilde", "mTilde", "Modulus"), ("self.base_q.base()", "baseQ", "List Modulus")],
     "extern": [{"rcall": "self.base_q_to_Bsk_conv.fast_convert_array", "binder": "qToBskF"},
                {"rcall": "self.base_q_to_m_tilde_conv.fast_convert_array", "binder": "qToMtF"}]},
]
