#!/bin/bash
# usage: tools/seedtest2.sh <Cnn> <mutation dir, e.g. /tmp/mut7/C08> [checks to run, default: the property itself]
# Like tools/seedtest.sh (confirms a seeded change in the sub-agent's scratch worktree: builds, existing suite passes, demonstration fails
# with the change and passes without it), but runs the registered check(s) from a private COPY of /verif (incl. its Lean build cache)
# against a scratch worktree of /repo with the patch applied, so that several seeded changes can be tested at once and /verif itself
# (Gen files, lake build, evidence) is never touched.  SEED_CONFIRM=0 skips the confirmation part (re-runs after strengthening).
set -u
P=$1; D=$2; shift 2; CHECKS=${@:-$P}; TIER=${SEED_TIER:-quick}
W=$D/repo
meta() { python3 -c "import json,sys; print(json.load(open('$D/meta.json')).get('$1',''))"; }
if [ "${SEED_CONFIRM:-1}" = "1" ]; then
  export CARGO_TARGET_DIR=$D/target
  DEMO=$(meta demo_cmd)
  echo "== demo with the change (expected to fail):"; (cd $D && bash -c "$DEMO" > $D/demo_with.log 2>&1); echo "exit $?"
  echo "== build + existing suite (lib tests) with the change:"
  (cd $W && cargo build --offline 2>&1 | tail -1 && cargo build --offline --features verif 2>&1 | tail -1 && cargo nextest run --offline --lib 2>&1 | grep -E "Summary|FAIL" | head -5)
  echo "== demo without the change:"; (cd $W && git apply -R $D/patch.diff && (cd $D && bash -c "$DEMO") > $D/demo_without.log 2>&1; R0=$?; git apply $D/patch.diff; echo "exit $R0 (expected 0)")
  unset CARGO_TARGET_DIR
fi
S=/tmp/seedrun2/$(basename $D)-$P; rm -rf $S; mkdir -p $S
git -C /repo worktree prune
git -C /repo worktree add --detach $S/repo HEAD -q && git -C $S/repo apply $D/patch.diff || { echo "PATCH DOES NOT APPLY"; exit 2; }
rsync -a --exclude .git --exclude build --exclude seeded --exclude replays /verif/ $S/verif/
sed -i "s#path = \"/repo\"#path = \"$S/repo\"#" $S/verif/harness/Cargo.toml
mkdir -p $S/verif/build; cp -r /verif/build/cargo $S/verif/build/cargo 2>/dev/null
echo "== running checks against scratch tree $S/repo: $CHECKS (tier $TIER)"
for c in $CHECKS; do (cd $S/verif && VERIF_REPO=$S/repo timeout 3000 ./check $c --tier $TIER 2>&1 | cut -c1-900 | head -6); done
mkdir -p $D/replays; cp $S/verif/replays/* $D/replays/ 2>/dev/null
git -C /repo worktree remove --force $S/repo; rm -rf $S
