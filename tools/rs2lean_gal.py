"""Gen/GaloisPlanFns.lean (worker V, round 7): the DECISION / PLAN skeletons of the rotation layer of src/evaluator.rs:
`rotate_internal` (one level: direct key or NAF terms, which terms are skipped), `conjugate_internal`, `apply_galois_inplace`
(which kernel is applied to which polynomial in which order, zeroing of c1, key switch with which key index), the four public
entry points (`rotate_rows_inplace`, `rotate_columns_inplace`, `rotate_vector_inplace`, `complex_conjugate_inplace`: scheme gate).

"plan mode".  The method is first REWRITTEN by the ordinary skeleton mechanism of tools/rs2lean.py (class `Skeleton`: every parameter and `self`
is an opaque handle, accessor chains / effects are replaced through the tables below, a table entry that never matches is refused, whatever
still mentions a handle afterwards is an unknown identifier).  The rewritten function is then lowered by the small lowering of THIS file,
because it needs three things the main lowering does not have: a `for x in <Vec<i32> local>` loop, a `let` of a `Vec<i32>` call result, and a
`match <bool> { false => .., true => .. }` statement.  Accepted subset (everything else fails loudly):

  statements   `let x = e;` (immutable) | `if c { .. } [else { .. }]` | `match b { false => {..}, true => {..} }` (b a Boolean, exactly these two arms)
               | `panic!(..)` | `assert!(c);` | `return;` (not inside `for`) | `v.push(e);` (v a `&mut Vec` pseudo-parameter)
               | `for x in xs { .. }` (xs a list local / parameter; the body may only push onto `&mut Vec` pseudo-parameters, no `return`)
  expressions  variables, integer literals, `true`/`false`, `! && || == != < <= > >=`, `&` (words), `>> <literal>` (words), `* + -` on words
               (overflow-checked: `ckMul`/`ckAdd`/`ckSub`), `x as i32` (two's-complement wrap `castI32`), `x as isize` / `x as usize` (no-op on a
               value of the same signedness), `i.unsigned_abs()` (`Int.natAbs`), `xs.len()`, enum paths `SchemeType::X`, calls of the functions
               listed in `CALLS` (already generated functions of Gen/GaloisFns.lean / Gen/Word2Fns.lean, and `has_key` = list membership).

The mutable state is only the `&mut Vec` pseudo-parameters (they start EMPTY and are returned, in parameter order); after an `if` the continuation
is duplicated into both branches (the plans are tiny), so no merging of variables is needed.  Locals are named by position (`v1, v2, ..`; temporaries
`t1, ..`), so renaming a local of the Rust source changes nothing.

TRUSTED readings (the tables): a ciphertext / key object is represented by the facts the function reads from it (Booleans `valid`, `batching`,
`keys_ok` = the three panics' conditions, `n` = poly_modulus_degree of the ciphertext's level, `keys` = the list of Galois elements `has_key` answers
true for); `self.apply_galois_inplace(encrypted, E, galois_keys)` = "E is appended to the plan" (what that call does to the data is `apply_galois_inplace`'s
own skeleton + the model's `applyGalois`); the recursive call `self.rotate_internal(encrypted, d as isize, galois_keys)` = "d is appended to the list of
sub-rotations" (the recursion itself is closed in Lean: `gal_rotateGen` in Proofs/GenGaloisPlan.lean runs the generated level function recursively, in order).
For `apply_galois_inplace` the data effects are step codes (see `SK_APPLY`)."""
import re, hashlib

EV = "src/evaluator.rs"

# ------------------------------------------------------------------------------------------------------------------------------------
# callable functions: rust path -> (lean name, monadic, argument types, result type)
CALLS = {
    "get_elt_from_step": ("GenG.get_elt_from_step", True, ["int", "nat"], "nat"),          # Gen/GaloisFns.lean (tool field coeff_count passed explicitly)
    "get_index_from_elt": ("GenG.get_index_from_elt", True, ["nat"], "nat"),
    "util::naf": ("GenW2.naf", True, ["int"], "ilist"),                                       # Gen/Word2Fns.lean
    "has_key": ("has_key", False, ["nlist", "nat"], "bool"),
}

PRELUDE = """/-- `GaloisKeys::has_key(e)` for the key object represented by the list of elements it has keys for -/
def has_key (keys : List Nat) (e : Nat) : Bool := keys.contains e
/-- `x as i32` of an `isize`: two's-complement truncation to 32 bits -/
def castI32 (x : Int) : Int := (x + 2147483648) % 4294967296 - 2147483648
"""

LEANTY = {"int": "Int", "nat": "Nat", "bool": "Bool", "nlist": "List Nat", "ilist": "List Int", "scheme": "Scheme"}


class PlanLower:
    def __init__(self, m, fn, what):
        self.m, self.fn, self.what = m, fn, what
        self.nv = 0; self.nt = 0; self.names = []

    def fail(self, msg, ln=None):
        raise self.m.Unsupported(f"{self.what}: {msg}" + (f" (line {ln})" if ln else ""))

    def ty_of(self, t):
        if t[0] == "name" and t[1] in ("isize", "i64", "i32"): return "int"
        if t[0] == "name" and t[1] in ("usize", "u64", "u32"): return "nat"
        if t[0] == "name" and t[1] == "bool": return "bool"
        if t[0] == "name" and t[1] == "SchemeType": return "scheme"
        if t[0] == "ref" and t[2][0] in ("arr", "vec"):
            el = self.ty_of(t[2][1])
            if el == "nat": return "nlist"
            if el == "int": return "ilist"
        self.fail(f"pseudo-parameter type {t}")

    # -------------------------------------------------------------- expressions: (atom, type); Booleans are decidable propositions
    def temp(self):
        self.nt += 1; return f"t{self.nt}"

    def ex(self, e, env, ops):
        sp = self.m.strip_paren; e = sp(e); k = e[0]
        if k == "num":
            if e[2] not in (None, "usize", "u64", "isize", "i32", "i64"): self.fail(f"literal suffix {e[2]}")
            return str(e[1]), "lit"
        if k == "bool": return ("True" if e[1] else "False"), "bool"
        if k == "path":
            if len(e[1]) == 1:
                if e[1][0] in ("true", "false"): return ("True" if e[1][0] == "true" else "False"), "bool"
                if e[1][0] not in env: self.fail(f"unknown identifier `{e[1][0]}`")
                ln, ty = env[e[1][0]]
                return (f"({ln} = true)", "bool") if ty == "bool" else (ln, ty)
            if len(e[1]) == 2 and e[1][0] == "SchemeType" and e[1][1] in ("BFV", "BGV", "CKKS", "None"):
                return "Scheme." + {"BFV": "bfv", "BGV": "bgv", "CKKS": "ckks", "None": "none"}[e[1][1]], "scheme"
            self.fail(f"path {'::'.join(e[1])}")
        if k == "un" and e[1] == "!":
            a, t = self.ex(e[2], env, ops)
            if t != "bool": self.fail("`!` on " + t)
            return f"(¬ {a})", "bool"
        if k == "bin":
            op = e[1]
            if op in ("&&", "||"):
                ops2 = []
                a, ta = self.ex(e[2], env, ops); b, tb = self.ex(e[3], env, ops2)
                if ops2: self.fail(f"right operand of `{op}` needs an effectful / checked computation (short-circuit not modelled)")
                if ta != "bool" or tb != "bool": self.fail(f"`{op}` on {ta}, {tb}")
                return f"({a} {'∧' if op == '&&' else '∨'} {b})", "bool"
            a, ta = self.ex(e[2], env, ops); b, tb = self.ex(e[3], env, ops)
            if ta == "lit" and tb in ("nat", "int"): ta = tb
            if tb == "lit" and ta in ("nat", "int"): tb = ta
            if op in ("==", "!=", "<", "<=", ">", ">="):
                if ta != tb or ta not in ("nat", "int", "scheme") or (ta == "scheme" and op not in ("==", "!=")): self.fail(f"comparison `{op}` on {ta}, {tb}")
                if ta == "int" and tb == "int" and sp(e[3])[0] == "num": b = f"({b} : Int)"
                sym = {"==": "=", "!=": "≠", "<": "<", "<=": "≤", ">": ">", ">=": "≥"}[op]
                return f"({a} {sym} {b})", "bool"
            if ta != "nat" or tb != "nat": self.fail(f"operator `{op}` on {ta}, {tb}")
            if op == "&": return f"({a} &&& {b})", "nat"
            if op == ">>":
                r = sp(e[3])
                if r[0] != "num" or not (0 <= r[1] < 64): self.fail("`>>` by a non-literal amount")
                return f"({a} >>> {b})", "nat"
            if op in ("*", "+", "-"):
                t = self.temp(); ops.append(f"let {t} ← {'ckMul' if op == '*' else 'ckAdd' if op == '+' else 'ckSub'} {a} {b}")
                return t, "nat"
            self.fail(f"operator `{op}`")
        if k == "cast":
            a, t = self.ex(e[1], env, ops)
            if e[2] == ("name", "i32") and t == "int": return f"(castI32 {a})", "int"
            if e[2] == ("name", "isize") and t == "int": return a, "int"        # i32 -> isize: value-preserving
            if e[2] == ("name", "usize") and t == "nat": return a, "nat"        # u32 / u64 -> usize (64-bit target): value-preserving
            self.fail(f"cast of a {t} to {e[2]}")
        if k == "mcall":
            if e[2] == "unsigned_abs" and not e[3]:
                a, t = self.ex(e[1], env, ops)
                if t != "int": self.fail("unsigned_abs on " + t)
                return f"(Int.natAbs {a})", "nat"
            if e[2] == "len" and not e[3]:
                a, t = self.ex(e[1], env, ops)
                if t not in ("nlist", "ilist"): self.fail("len on " + t)
                return f"{a}.length", "nat"
            self.fail(f"method `{e[2]}`")
        if k == "call":
            name = "::".join(e[1])
            if name not in CALLS: self.fail(f"call of `{name}` (not in the table of callable functions)")
            lean, mon, atys, rty = CALLS[name]
            if len(atys) != len(e[2]): self.fail(f"`{name}`: {len(e[2])} arguments")
            args = []
            for x, want in zip(e[2], atys):
                if sp(x)[0] == "ref": x = sp(x)[2]
                a, t = self.ex(x, env, ops)
                if t == "lit" and want in ("nat", "int"): t = want
                if t != want: self.fail(f"`{name}`: argument of type {t}, expected {want}")
                args.append(a)
            call = f"{lean} {' '.join(args)}"
            if mon:
                t = self.temp(); ops.append(f"let {t} ← {call}"); return t, rty
            return (f"({call} = true)", "bool") if rty == "bool" else (f"({call})", rty)
        self.fail(f"expression node `{k}`")

    # -------------------------------------------------------------- statements
    def block_stmts(self, blk):
        return list(blk[0]) + ([("expr", blk[1], None)] if blk[1] is not None else [])

    def seq(self, stmts, env, k, ind, infor):
        """lines of the do-sequence for `stmts` followed by the continuation `k(env, ind)`"""
        sp = self.m.strip_paren; pad = " " * ind
        if not stmts: return k(env, ind)
        s, rest = stmts[0], stmts[1:]
        cont = lambda env2, ind2: self.seq(rest, env2, k, ind2, infor)
        ln = s[-1] if isinstance(s[-1], int) else None
        if s[0] == "let" and isinstance(s[1], str) and s[4] is not None and sp(s[4])[0] == "vecrep":
            # `let [mut] buf = vec![0; len];`: a scratch buffer; only its length computation (overflow-checked) is kept, the data effects on it are table entries
            ops = []; a, t = self.ex(sp(s[4])[2], env, ops)
            if sp(sp(s[4])[1]) != ("num", 0, None) or t != "nat": self.fail("only `vec![0; <word>]` is accepted", s[5])
            self.nv += 1; v = f"v{self.nv}"; self.names.append(f"{v}={s[1]}")
            env2 = dict(env); env2[s[1]] = (v, "buf")
            return [pad + o for o in ops] + [pad + f"let {v} : Nat := {a}"] + cont(env2, ind)
        if s[0] == "let" and isinstance(s[1], str) and not s[2] and s[4] is not None and sp(s[4])[0] == "if":
            # `let x = if c { a } else { b };` with statement-free branches: the (possibly overflow-checked) branch values are computed INSIDE their branch
            e = sp(s[4]); ops = []; c, t = self.ex(e[1], env, ops)
            if t != "bool": self.fail("`if` on a " + t, s[5])
            if e[3] is None or not (isinstance(e[3], tuple) and len(e[3]) == 2 and isinstance(e[3][0], list)): self.fail("value-`if` without a plain `else { .. }`", s[5])
            vals = []
            for b in (e[2], e[3]):
                if b[0] or b[1] is None: self.fail("value-`if` branch with statements", s[5])
                o2 = []; a, tb = self.ex(b[1], env, o2); vals.append((o2, a, tb))
            tys = {tb for _, _, tb in vals} - {"lit"}
            if tys - {"nat"}: self.fail(f"value-`if` of type {tys}", s[5])
            self.nv += 1; v = f"v{self.nv}"; self.names.append(f"{v}={s[1]}")
            env2 = dict(env); env2[s[1]] = (v, "nat")
            def br(o2, a): return ["(do"] + ["    " + o for o in o2] + [f"    pure {a})"]
            lines = [pad + o for o in ops] + [pad + f"let {v} : Nat ← if {c} then"] + [pad + "    " + x for x in br(vals[0][0], vals[0][1])] + \
                    [pad + "  else"] + [pad + "    " + x for x in br(vals[1][0], vals[1][1])]
            return lines + cont(env2, ind)
        if s[0] == "let":
            if not isinstance(s[1], str) or s[2] or s[4] is None: self.fail("only `let x = e;` (immutable, initialised) is accepted", s[5])
            ops = []; a, t = self.ex(s[4], env, ops)
            if t == "lit": t = "nat"
            if t == "bool": self.fail("`let` of a Boolean", s[5])
            self.nv += 1; v = f"v{self.nv}"; self.names.append(f"{v}={s[1]}")
            env2 = dict(env); env2[s[1]] = (v, t)
            return [pad + o for o in ops] + [pad + f"let {v} : {LEANTY[t]} := {a}"] + cont(env2, ind)
        if s[0] == "return":
            if s[1] is not None: self.fail("`return` with a value", ln)
            if infor: self.fail("`return` inside a `for` loop", ln)
            return self.epilogue(env, ind)
        if s[0] == "for":
            if not isinstance(s[1], str): self.fail("`for` pattern", ln)
            ops = []
            if sp(s[2])[0] == "range":          # `for i in lo..hi` (exclusive): the indices lo, lo+1, .., hi-1 in order
                r = sp(s[2])
                if r[1] is None or r[2] is None or r[3]: self.fail("only `lo..hi` ranges are accepted", ln)
                lo, tl = self.ex(r[1], env, ops); hi, th = self.ex(r[2], env, ops)
                if tl not in ("nat", "lit") or th not in ("nat", "lit"): self.fail(f"range over {tl}..{th}", ln)
                xs, t = f"(List.range' {lo} ({hi} - {lo}))", "nlist"
            else:
                xs, t = self.ex(s[2], env, ops)
                if ops: self.fail("`for x in e`: e must be a list variable", ln)
            if t not in ("nlist", "ilist"): self.fail("`for x in e`: e must be a list variable or a range", ln)
            body = self.block_stmts(s[3])
            pushed = sorted(self.pushed(body), key=lambda n: self.muts.index(n))
            if not pushed: self.fail("`for` loop without an effect on a `&mut Vec` pseudo-parameter", ln)
            self.nv += 1; v = f"v{self.nv}"; self.names.append(f"{v}={s[1]}")
            env2 = dict(env); env2[s[1]] = (v, "int" if t == "ilist" else "nat")
            tup = pushed[0] if len(pushed) == 1 else "(" + ", ".join(pushed) + ")"
            tupty = " × ".join(LEANTY[env[p][1]] for p in pushed)
            kb = lambda env3, ind3: [" " * ind3 + f"pure {tup}"]
            inner = self.seq(body, env2, kb, ind + 4, True)
            head = [pad + f"let {tup} ← {xs}.foldlM (fun (st : {tupty}) ({v} : {LEANTY[env2[s[1]][1]]}) => do",
                    pad + f"    let {tup} := st"]
            return [pad + o for o in ops] + head + inner + [pad + f"  ) {tup}"] + cont(env, ind)
        if s[0] != "expr": self.fail(f"statement `{s[0]}`", ln)
        e = sp(s[1])
        if e[0] == "panic": return [pad + ".error .refused"]
        if e[0] == "assert":
            ops = []; c, t = self.ex(e[1], env, ops)
            if t != "bool": self.fail("assert! of a " + t, ln)
            return [pad + o for o in ops] + [pad + f"if ¬ {c} then", pad + "  .error .refused", pad + "else"] + cont(env, ind + 2)
        if e[0] == "if":
            ops = []; c, t = self.ex(e[1], env, ops)
            if t != "bool": self.fail("`if` on a " + t, ln)
            b1 = self.block_stmts(e[2]); b2 = self.block_stmts(e[3]) if e[3] is not None else []
            if e[3] is not None and not (isinstance(e[3], tuple) and len(e[3]) == 2 and isinstance(e[3][0], list)): self.fail("`else if` chains are not accepted", ln)
            return ([pad + o for o in ops] + [pad + f"if {c} then"] + self.seq(b1, env, cont, ind + 2, infor) +
                    [pad + "else"] + self.seq(b2, env, cont, ind + 2, infor))
        if e[0] == "match":
            ops = []; c, t = self.ex(e[1], env, ops)
            if t != "bool": self.fail("`match` on a " + t, ln)
            arms = {}
            for pats, body in e[2]:
                if len(pats) != 1 or pats[0][0] not in ("path", "bool"): self.fail("`match` arm pattern", ln)
                key = pats[0][1][0] if pats[0][0] == "path" else ("true" if pats[0][1] else "false")
                if key not in ("true", "false") or key in arms: self.fail(f"`match` arm pattern {key}", ln)
                body = sp(body)
                arms[key] = self.block_stmts(body[1]) if body[0] == "blockexpr" else [("expr", body, None)]
            if set(arms) != {"true", "false"}: self.fail("Boolean `match` needs exactly the arms `false` and `true`", ln)
            return ([pad + o for o in ops] + [pad + f"if {c} then"] + self.seq(arms["true"], env, cont, ind + 2, infor) +
                    [pad + "else"] + self.seq(arms["false"], env, cont, ind + 2, infor))
        if e[0] == "mcall" and e[2] == "push" and len(e[3]) == 1 and sp(e[1])[0] == "path" and sp(e[1])[1][0] in self.muts:
            v = sp(e[1])[1][0]; ops = []
            a, t = self.ex(e[3][0], env, ops)
            want = "nat" if env[v][1] == "nlist" else "int"
            if t == "lit": t = want
            if t != want: self.fail(f"push of a {t} onto `{v}`", ln)
            return [pad + o for o in ops] + [pad + f"let {v} := {v} ++ [{a}]"] + cont(env, ind)
        self.fail(f"statement expression `{e[0]}`" + (f" `{e[2]}`" if e[0] == "mcall" else ""), ln)

    def pushed(self, stmts):
        res = set()
        def walk(x):
            if isinstance(x, list):
                for y in x: walk(y)
            elif isinstance(x, tuple) and x:
                if x[0] == "mcall" and x[2] == "push" and self.m.strip_paren(x[1])[0] == "path" and self.m.strip_paren(x[1])[1][0] in self.muts:
                    res.add(self.m.strip_paren(x[1])[1][0])
                for y in x: walk(y)
        walk(stmts); return res

    def epilogue(self, env, ind):
        return [" " * ind + "pure " + (self.muts[0] if len(self.muts) == 1 else "(" + ", ".join(self.muts) + ")")]

    def run(self, lean):
        fn = self.fn
        if fn["ret"] != ("tuple", []): self.fail("plan functions return their `&mut Vec` pseudo-parameters only")
        env = {}; binders = []; self.muts = []
        for pn, pt, mut in fn["params"]:
            t = self.ty_of(pt)
            env[pn] = (pn, t)
            if pt[0] == "ref" and pt[1]:
                if pt[2][0] != "vec": self.fail(f"`&mut` pseudo-parameter `{pn}` must be a Vec")
                self.muts.append(pn)
            else: binders.append(f"({pn} : {LEANTY[t]})")
        if not self.muts: self.fail("no `&mut Vec` pseudo-parameter (nothing to return)")
        body = self.block_stmts(fn["body"])
        lines = self.seq(body, env, self.epilogue, 2, False)
        rty = " × ".join(LEANTY[env[p][1]] for p in self.muts)
        init = [f"  let {p} : {LEANTY[env[p][1]]} := []" for p in self.muts]
        out = [f"/-- `{fn['name']}`  {fn['file']}:{fn['line0']}-{fn['line1']}  sha256/64(normalised source) = {fn['hash']}",
               f"    plan skeleton; names: {' '.join(self.names) if self.names else '-'} -/",
               f"def {lean} {' '.join(binders)} : R ({rty}) := do"] + init + lines + [""]
        return "\n".join(out)


# ------------------------------------------------------------------------------------------------------------------------------------
# tables
CD = "self.context.get_context_data(encrypted.parms_id())"
CDU = CD + ".unwrap()"
GT = CDU + ".galois_tool()"
KEYS_BAD = "galois_keys.parms_id() != self.context.key_parms_id()"

SK_ROTATE = {
    "sig": "fn rotate_internal(steps: isize, n: usize, keys: &[usize], valid: bool, batching: bool, keys_ok: bool, plan: &mut Vec<usize>, subs: &mut Vec<i32>)",
    "handles": [CD, CDU, CDU + ".parms()", GT],
    "exprs": {CD + ".is_none()": "!valid", CDU + ".qualifiers().using_batching": "batching", KEYS_BAD: "!keys_ok",
              CDU + ".parms().poly_modulus_degree()": "n",
              "galois_keys.has_key(%s.get_elt_from_step(steps))" % GT: "has_key(keys, get_elt_from_step(steps, n))"},
    "effects": {"self.apply_galois_inplace(encrypted, %s.get_elt_from_step(steps), galois_keys)" % GT: "plan.push(get_elt_from_step(steps, n));",
                "self.rotate_internal(encrypted, $s as isize, galois_keys)": "subs.push($s);"}}

SK_CONJ = {
    "sig": "fn conjugate_internal(n: usize, valid: bool, batching: bool, plan: &mut Vec<usize>)",
    "handles": [CD, CDU, GT],
    "exprs": {CD + ".is_none()": "!valid", CDU + ".qualifiers().using_batching": "batching"},
    "effects": {"self.apply_galois_inplace(encrypted, %s.get_elt_from_step(0), galois_keys)" % GT: "plan.push(get_elt_from_step(0, n));"}}

# `apply_galois_inplace`: step codes appended to `plan` (the data is the model's):
#   1 = `galois_tool.apply_p(c0, g, moduli, temp)` (coefficient form, key-level tool)      11 = `galois_tool.apply_ntt_p(c0, size, g, temp)` (NTT form)
#   2 = `c0.copy_from_slice(temp)`
#   3 = `galois_tool.apply_p(c1, g, moduli, temp)`                                         13 = `galois_tool.apply_ntt_p(c1, size, g, temp)`
#   4 = `c1.fill(0)`
#   5, i = `switch_key_inplace_internal(encrypted, temp, galois_keys, i)`   (i = `GaloisKeys::get_index(g)`, see SK_APPLY["exprs"])
CDX = CD + ".unwrap()"
KCD = "self.context.key_context_data().unwrap()"
KGT = KCD + ".galois_tool()"
CM = CDX + ".parms().coeff_modulus()"
SK_APPLY = {
    "sig": "fn apply_galois_inplace(g: usize, n: usize, k: usize, size: usize, ntt: bool, valid: bool, keys_valid: bool, keys_ok: bool, has: bool, plan: &mut Vec<usize>)",
    "handles": [CDX, CDX + ".parms()", CM, KCD, KGT],
    "exprs": {CM + ".len()": "k", KEYS_BAD: "!keys_ok", CDX + ".parms().poly_modulus_degree()": "n", "encrypted.size()": "size",
              "galois_keys.has_key(galois_elt)": "has", "galois_elt": "g", "encrypted.is_ntt_form()": "ntt"},
    "effects": {"self.check_ciphertext(encrypted)": "assert!(valid);", "self.check_public_key(galois_keys)": "assert!(keys_valid);",
                "%s.apply_p(encrypted.poly_mut(0), galois_elt, %s, &$t)" % (KGT, CM): "plan.push(1);",
                "%s.apply_p(encrypted.poly_mut(1), galois_elt, %s, &$t)" % (KGT, CM): "plan.push(3);",
                "%s.apply_ntt_p(encrypted.poly_mut(0), $csz, galois_elt, &$t)" % KGT: "plan.push(11);",
                "%s.apply_ntt_p(encrypted.poly_mut(1), $csz, galois_elt, &$t)" % KGT: "plan.push(13);",
                "encrypted.poly_mut(0).copy_from_slice(&$t)": "plan.push(2);",
                "encrypted.poly_mut(1).fill(0)": "plan.push(4);",
                "self.switch_key_inplace_internal(encrypted, &$t, galois_keys.as_kswitch_keys(), GaloisKeys::get_index(galois_elt))":
                    "plan.push(5); plan.push(get_index_from_elt(g));"}}

# public entry points: scheme gate, then the internal routine (code 1 = `rotate_internal(encrypted, steps, keys)`, 2 = `conjugate_internal(encrypted, keys)`)
SCH = KCD + ".parms().scheme()"
def _entry(name, call, code, params):
    return {"sig": "fn %s(scheme: SchemeType, plan: &mut Vec<usize>)" % name, "handles": [],
            "exprs": {SCH: "scheme"}, "effects": {call: "plan.push(%d);" % code}}
SK_ROWS = _entry("rotate_rows_inplace", "self.rotate_internal(encrypted, steps, galois_keys)", 1, "")
SK_VECTOR = _entry("rotate_vector_inplace", "self.rotate_internal(encrypted, steps, galois_keys)", 1, "")
SK_COLS = _entry("rotate_columns_inplace", "self.conjugate_internal(encrypted, galois_keys)", 2, "")
SK_CCONJ = _entry("complex_conjugate_inplace", "self.conjugate_internal(encrypted, galois_keys)", 2, "")

TABLE = [
    {"fn": "rotate_internal", "lean": "rotate_internal_level", "skeleton": SK_ROTATE, "model": "rotateLevel (Proofs/GenGaloisPlan.lean) / rotatePlan"},
    {"fn": "conjugate_internal", "lean": "conjugate_internal", "skeleton": SK_CONJ, "model": "[eltFromStep k 0]"},
    {"fn": "apply_galois_inplace", "lean": "apply_galois_inplace_plan", "skeleton": SK_APPLY, "model": "galoisPlan / applyGalois"},
    {"fn": "rotate_rows_inplace", "lean": "rotate_rows_inplace", "skeleton": SK_ROWS, "model": "scheme gate BFV/BGV"},
    {"fn": "rotate_columns_inplace", "lean": "rotate_columns_inplace", "skeleton": SK_COLS, "model": "scheme gate BFV/BGV"},
    {"fn": "rotate_vector_inplace", "lean": "rotate_vector_inplace", "skeleton": SK_VECTOR, "model": "scheme gate CKKS"},
    {"fn": "complex_conjugate_inplace", "lean": "complex_conjugate_inplace", "skeleton": SK_CCONJ, "model": "scheme gate CKKS"},
]

# ------------------------------------------------------------------------------------------------------------------------------------
# `switch_key_inplace_internal` (src/evaluator.rs): the function as a whole is outside the parser's subset (tuple patterns in `for`, `unsafe` values, ...);
# two FRAGMENTS are translated ("fragment mode" as in tools/rs2lean_ctx.py: contiguous top-level statements located by structure, never by names of locals):
#   prologue   : the top-level statements from the first one up to and including the statement `match <scheme> { .. }` (the refusals);
#   key_indices: the header of the FIRST top-level RANGE loop (`for <var> in 0..<bound>`; the loop over the RNS indices) and the FIRST statement of its body, which must be a `let` (the choice of the key-level
#                modulus / NTT table for RNS index i), preceded by the immutable top-level `let`s they (transitively) mention; the translator appends the
#                synthetic statement `plan.push(<that let's name>);` and closes the loop: the result is the list of key-level indices used for i = 0, 1, ..
# TRUSTED readings: the tables below; for `key_indices` additionally that the rest of the loop body uses the variable as its table index (inspected by hand:
# `key_modulus[key_index]`, `key_ntt_tables[key_index]`, `poly_component(k, key_index)`).
SKP = "self.get_context_data(encrypted.parms_id())"
KCDS = "self.context.key_context_data().unwrap()"
SK_SWITCH_PROLOGUE = {
    "sig": "fn switch_key_prologue(scheme: SchemeType, ntt: bool, valid: bool, using_ks: bool, keys_ok: bool, index: usize, nkeys: usize, plan: &mut Vec<usize>)",
    "match_stmt": True,
    "handles": ["encrypted.parms_id()", SKP, SKP + ".parms()", KCDS, KCDS + ".parms()"],
    "exprs": {"self.context.using_keyswitching()": "using_ks", "kswitch_keys.parms_id() != self.context.key_parms_id()": "!keys_ok",
              "kswitch_kes_index >= kswitch_keys.data().len()": "index >= nkeys", SKP + ".parms().scheme()": "scheme", "encrypted.is_ntt_form()": "ntt"},
    "effects": {"self.check_ciphertext(encrypted)": "assert!(valid);"},
    "optional": [KCDS, KCDS + ".parms()"]}
SK_SWITCH_KEYIDX = {
    "sig": "fn switch_key_indices(dsz: usize, ksz: usize, plan: &mut Vec<usize>)",
    "handles": ["encrypted.parms_id()", SKP, SKP + ".parms()", KCDS, KCDS + ".parms()", KCDS + ".parms().coeff_modulus()"],
    "exprs": {SKP + ".parms().coeff_modulus().len()": "dsz", KCDS + ".parms().coeff_modulus().len()": "ksz"},
    "effects": {},
    # (all optional: which top-level `let`s are pulled in depends on what the two statements mention; a variant that does not look at the key level at all is
    #  then TRANSLATED - and breaks the equality theorem - instead of only failing loudly)
    "optional": ["encrypted.parms_id()", SKP, SKP + ".parms()", KCDS, KCDS + ".parms()", KCDS + ".parms().coeff_modulus()",
                 SKP + ".parms().coeff_modulus().len()", KCDS + ".parms().coeff_modulus().len()"]}
FRAGMENTS = [
    {"fn": "switch_key_inplace_internal", "lean": "switch_key_prologue", "kind": "prologue", "skeleton": SK_SWITCH_PROLOGUE, "model": "refusals of switchKey"},
    {"fn": "switch_key_inplace_internal", "lean": "switch_key_indices", "kind": "key_indices", "skeleton": SK_SWITCH_KEYIDX, "model": "keyIndex of ksAccumulate"},
]


def fragment_text(m, repo, ent):
    """(text of the pseudo-function, first line) for one fragment of an `impl Evaluator` method"""
    import rs2lean_ctx as C
    U = m.Unsupported; what = f"fragment {ent['lean']} of fn {ent['fn']}"
    src = m.strip_comments(open(m.os.path.join(repo, EV)).read())
    off, line = m.find_fn(src, ent["fn"], EV)
    j = src.index("{", off); end = m.brace_block(src, j, what)
    sig = src[off:j]
    blk = src[j + 1:end - 1]
    st = C.split_stmts(blk, what, U)
    texts = [blk[a:b] for a, b in st]
    if ent["kind"] == "prologue":
        hits = [k for k, t in enumerate(texts) if re.match(r"match\b", t)]
        if not hits: raise U(f"{what}: no top-level `match` statement")
        body = "\n".join(texts[:hits[0] + 1])
    else:
        hits = [k for k, t in enumerate(texts) if re.match(r"for\s+[a-z_]\w*\s+in\s+0\s*\.\.", t)]
        if not hits: raise U(f"{what}: no top-level `for <var> in 0..` statement")
        k0 = hits[0]; ft = texts[k0]
        jb = ft.index("{"); eb = m.brace_block(ft, jb, what)
        inner = ft[jb + 1:eb - 1]
        ist = C.split_stmts(inner, what, U)
        if not ist: raise U(f"{what}: empty loop body")
        first = inner[ist[0][0]:ist[0][1]]
        mm = re.match(r"let\s+([a-z_]\w*)\s*=", first)
        if not mm: raise U(f"{what}: the first statement of the loop body is not an immutable `let NAME = ..`")
        frag = ft[:jb + 1] + "\n" + first + f"\nplan.push({mm.group(1)});\n}}"
        lets = []
        for t in texts[:k0]:
            ml = re.match(r"let\s+([a-z_]\w*)\s*=\s*(.*);\s*$", " ".join(t.split()), re.S)
            if ml: lets.append((ml.group(1), t))
        need = C.idents(frag); chosen = []
        changed = True
        while changed:
            changed = False
            for nm, t in lets:
                if nm in need and t not in chosen: chosen.append(t); need |= C.idents(t); changed = True
        body = "\n".join([t for _, t in lets if t in chosen]) + "\n" + frag
    return sig + "{\n" + body + "\n}", line


# ------------------------------------------------------------------------------------------------------------------------------------
# `GaloisTool::apply_ntt` (src/util/galois.rs): the USE of the permutation table.  The function takes locks and fills the cache lazily (outside the accepted
# subset; the cache discipline is property C17); translated is the statement range AFTER the statement `let <table> = &(*<guard>)[<index>];` (located by
# its shape, the names are free) to the end of the function - the length assertion and the permutation `result[i] = operand[table[i]]` - as a function of
# (operand, table, result) by the MAIN lowering of rs2lean.py (option `iters`).  TRUSTED: `<table>` is a parameter (a `&[usize]` read as `&[u64]`: 64-bit
# target); that it IS `generate_table_ntt(galois_elt)` is the cache invariant of C17 (`tables[index]` is empty or that table; `index = get_index_from_elt`).
UG = "src/util/galois.rs"
RX_TABLE_LET = r"let\s+(\w+)\s*=\s*&\s*\(\s*\*\s*(\w+)\s*\)\s*\[\s*(\w+)\s*\]\s*;"


def apply_ntt_fragment(m, tr):
    import rs2lean_ctx as C
    U = m.Unsupported; what = "fragment galois_apply_ntt_permute of fn apply_ntt"
    src = m.strip_comments(open(m.os.path.join(tr.repo, UG)).read())
    off, line = m.find_fn(src, "apply_ntt", UG)
    j = src.index("{", off); end = m.brace_block(src, j, what)
    blk = src[j + 1:end - 1]
    st = C.split_stmts(blk, what, U)
    texts = [blk[a:b] for a, b in st]
    hits = [k for k, t in enumerate(texts) if re.match(RX_TABLE_LET, t)]
    if len(hits) != 1: raise U(f"{what}: statement `let <table> = &(*<guard>)[<index>];` found {len(hits)} times")
    k = hits[0]
    if k + 1 >= len(texts): raise U(f"{what}: nothing after the table binding")
    if blk[st[-1][1]:].strip(): raise U(f"{what}: the function ends with a value expression")
    name = re.match(RX_TABLE_LET, texts[k]).group(1)
    params = re.search(r"\(\s*&self\s*,\s*(\w+)\s*:\s*&\[u64\]\s*,\s*\w+\s*:\s*usize\s*,\s*(\w+)\s*:\s*&mut\s*\[u64\]\s*\)", src[off:j])
    if not params: raise U(f"{what}: signature of apply_ntt is not (&self, <operand>: &[u64], <elt>: usize, <result>: &mut [u64])")
    text = f"fn apply_ntt_permute(&self, {params.group(1)}: &[u64], {name}: &[u64], {params.group(2)}: &mut [u64]) {{\n" + "\n".join(texts[k + 1:]) + "\n}"
    ln = line + blk.count("\n", 0, st[k + 1][0])
    toks = m.tokenize(text, ln)
    pf = m.Parser(toks, "apply_ntt").fn_item()
    norm = " ".join(t[1] for t in toks)
    pf.update({"file": UG, "line0": ln, "line1": ln + text.count("\n"), "hash": hashlib.sha256(norm.encode()).hexdigest()[:16], "norm": norm,
               "selfty": "GaloisTool", "aliases": {}, "impl": "GaloisTool"})
    return m.FnTranslate(tr, pf, {"iters": True, "lean": "galois_apply_ntt_permute", "abstract": [("self.coeff_count", "coeffCount", "Nat")]}).translate()


SPEC = {"gal_mode": True, "ns": "GenGal", "imports": ["Heathcliff.Gen.GaloisFns", "Heathcliff.Gen.Word2Fns", "Heathcliff.Model.Scheme"], "table": TABLE, "fragments": FRAGMENTS}


def generate(m, tr, spec):
    U = m.Unsupported
    out = ["/- GENERATED by tools/rs2lean.py + tools/rs2lean_gal.py (via tools/extract.py) from src/evaluator.rs (plan skeletons of the rotation layer:",
           "   `rotate_internal`, `conjugate_internal`, `apply_galois_inplace`, the four public entry points; see the header of tools/rs2lean_gal.py) -- do not edit. -/"]
    out += [f"import {x}" for x in spec["imports"]] + ["", "set_option linter.unusedVariables false", "", f"namespace HC.{spec['ns']}", "open HC", "open HC.GenW", "", PRELUDE]
    for ent in spec["table"]:
        what = f"rs2lean: {EV}: fn {ent['fn']} (plan mode)"
        try:
            fn = m.parse_fn(tr.repo, EV, ent["fn"], "Evaluator")
            ft = m.FnTranslate(tr, fn, {"skeleton": ent["skeleton"]})
            new = m.Skeleton(ft, ft.fn, ent["skeleton"]).run()
            out.append(PlanLower(m, new, what).run(ent["lean"]))
        except U as ex: raise U(f"{what}: {ex}" if what not in str(ex) else str(ex))
    for ent in spec.get("fragments", []):
        what = f"rs2lean: {EV}: fragment {ent['lean']} of fn {ent['fn']} (plan mode)"
        try:
            text, ln = fragment_text(m, tr.repo, ent)
            toks = m.tokenize(text, ln)
            pf = m.Parser(toks, ent["fn"]).fn_item()
            norm = " ".join(t[1] for t in toks)
            pf.update({"file": EV, "line0": ln, "line1": ln + text.count("\n"), "hash": hashlib.sha256(norm.encode()).hexdigest()[:16], "norm": norm,
                       "selfty": "Evaluator", "aliases": {}, "impl": "Evaluator"})
            ft = m.FnTranslate(tr, pf, {"skeleton": ent["skeleton"]})
            new = m.Skeleton(ft, ft.fn, ent["skeleton"]).run()
            out.append(PlanLower(m, new, what).run(ent["lean"]))
        except U as ex: raise U(f"{what}: {ex}" if what not in str(ex) else str(ex))
    tr.cur_ns = spec["ns"]
    try: out.append(apply_ntt_fragment(m, tr))
    except U as ex: raise U(f"rs2lean: {UG}: {ex}")
    out += [f"end HC.{spec['ns']}", ""]
    return "\n".join(out)
