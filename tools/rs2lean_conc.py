"""Translator phase 4m ("conc mode", C17): the PHASE STRUCTURE of the double-checked cache updates and of their readers.
Output: Gen/ConcFns.lean (`HC.GenConc`).  Sources: `Decryptor::compute_secret_key_array`, `Decryptor::dot_product_ct_sk_array`
(src/encryptor.rs), `KeyGenerator::compute_secret_key_array`, `KeyGenerator::generate_rlk` (src/key.rs), `GaloisTool::apply_ntt`
(src/util/galois.rs).

Every function is translated in SKELETON mode by the main pipeline of rs2lean.py (`Skeleton` -> `FnTranslate`): the result is a plain
function from the VALUES A THREAD OBSERVES IN EACH LOCK REGION (pseudo-parameters `len_r`, `len_w`, `len_u`, `lens_k`, `lens_u`) to the flat
list of action codes the thread performs - its program as a function of what it reads.  `ConcSkeleton` (below) extends `Skeleton` by

  * GUARDS (table `guards`: canonical acquisition text -> (statements at acquisition, statements at release)).
    TRUSTED reading of `std::sync::RwLock`:  `let g = self.<field>.read().unwrap()` / `.write().unwrap()` ACQUIRES the lock and `g` is the
    guard; the lock is RELEASED by `drop(g)`, or implicitly where `g` goes out of scope: at the end of the block that declares it (after
    the block's tail expression has been evaluated) and at every `return` inside its scope (all live guards, innermost first).  A region
    acquire..release is one atomic step of the transition system (Model/Conc.lean).  A guard dropped inside a branch that falls through, a
    guard moved / shadowed / passed on, `mem::forget`, ... are refused (the guard variable then still occurs somewhere the tables do not
    describe: unknown identifier in the lowering).  The k-th acquisition (k >= 2) with the same text is the handle `<text>#k`.
  * a canonical text for MORE node kinds (slice ranges `a[lo..hi]`, `vec![x; n]`, `&mut`, closures with one assignment, `assert!`), so that
    data statements can be keyed in `effects`; keys `let $v = <text>` match `let` statements.
  * STICKY wildcards `$Name` (upper-case initial): bound by the first `effects` key that matches, the same identifier afterwards (the local
    array that is allocated is the one that is copied into, extended and published).  In `exprs` a sticky wildcard must already be bound.
  * `#[cfg(feature = "verif")] <stmt>` is skipped by the parser (rs2lean.py `Parser.block`): the production configuration is translated.

Action codes (`HC.ConcProg.Act` in Proofs/GenConc.lean decodes them):
  1 ACQ_R  2 REL_R  3 ACQ_W  4 REL_W   10 ALLOC words   11 COPY words (shared -> local, under the read lock)   12 MUL a la b lb c lc (compute loop, lock free: words [c, c+lc) := [a, a+la) * [b, b+lb))
  13 STORE words (local -> shared, under the write lock)   14 CALL max_power (nested `compute_secret_key_array`)
  15 READ lo hi (use phase: a slice of the snapshot)   16 READ_FIRST (size-2 path: entry 0)   17 KEYS off cnt (generate_kswitch_keys)
  20 GEN idx (generate + store table idx, under the write lock)   21 USE idx len (permute with table idx of that length)
"""
import re

ACQ_R, REL_R, ACQ_W, REL_W = 1, 2, 3, 4


def make(T):
    class ConcSkeleton(T.Skeleton):
        def __init__(self, lower, fn, sk):
            super().__init__(lower, fn, sk)
            self.live = []           # guards alive: (variable, handle text, release statements)
            self.nacq = {}           # acquisition text -> number of acquisitions so far
            self.sticky = {}         # sticky wildcard -> identifier

        # ---- canonical text of expressions / statements
        def ctext(self, e):
            if not isinstance(e, tuple) or not e: return None
            k = e[0]; c = self.ctext
            def args(a):
                ps = [c(x) for x in a]
                return None if any(p is None for p in ps) else "(" + ", ".join(ps) + ")"
            if k == "paren": q = c(e[1]); return None if q is None else f"({q})"
            if k == "path":
                if len(e[1]) == 1 and e[1][0] in self.env and self.env[e[1][0]].kind == "handle": return self.env[e[1][0]].lean
                return "::".join(e[1])
            if k == "num": return str(e[1])
            if k == "bool": return "true" if e[1] else "false"
            if k == "mcall":
                r, a = c(e[1]), args(e[3]); return None if r is None or a is None else f"{r}.{e[2]}{a}"
            if k in ("field", "tfield"): r = c(e[1]); return None if r is None else f"{r}.{e[2]}"
            if k == "call": a = args(e[2]); return None if a is None else "::".join(e[1]) + a
            if k == "cast": r = c(e[1]); return None if r is None or e[2][0] != "name" else f"{r} as {e[2][1]}"
            if k == "un": r = c(e[2]); return None if r is None else e[1] + r
            if k == "deref": r = c(e[1]); return None if r is None else "*" + r
            if k == "ref": r = c(e[2]); return None if r is None else ("&mut " if e[1] else "&") + r
            if k == "bin": l, r = c(e[2]), c(e[3]); return None if l is None or r is None else f"{l} {e[1]} {r}"
            if k == "index": l, r = c(e[1]), c(e[2]); return None if l is None or r is None else f"{l}[{r}]"
            if k == "range":
                lo = "" if e[1] is None else c(e[1]); hi = "" if e[2] is None else c(e[2])
                return None if lo is None or hi is None else lo + ("..=" if e[3] else "..") + hi
            if k == "vecrep": a, b = c(e[1]), c(e[2]); return None if a is None or b is None else f"vec![{a}; {b}]"
            if k == "assert" and len(e) == 2: r = c(e[1]); return None if r is None else f"assert!({r})"
            if k == "closure" and len(e) == 3 and not e[2][0][:-1] and e[2][1] is None and len(e[2][0]) == 1 and e[2][0][0][0] == "assign":
                s = e[2][0][0]; l, r = c(s[1]), c(s[3])
                return None if l is None or r is None or s[2] is not None else f"|{self.pats(e[1])}| {l} = {r}"
            return None

        def pats(self, ps):
            def one(p):
                if isinstance(p, str): return p
                if p[0] == "tuplepat": return "(" + ", ".join(one(x) for x in p[1]) + ")"
                if p[0] == "refpat": return "&" + one(p[1])
                return "?"
            return ", ".join(one(p[0]) for p in ps)

        def canon(self, e):
            if isinstance(e, tuple) and e and e[0] == "assign" and e[2] is None:
                l, r = self.ctext(e[1]), self.ctext(e[3])
                return None if l is None or r is None else f"{l} = {r}"
            return self.ctext(e)

        def lookup(self, table, c):
            """as `Skeleton.lookup`, plus: sticky wildcards `$Name`; EXPRESSION wildcards `$$name` (any non-empty text; the replacement gets it in
            parentheses); a wildcard that occurs twice in a key must match the same text; `${name}` in a replacement = the identifier (so that
            `${x}__lo` names a pseudo-local derived from the source's local)"""
            tab = self.sk.get(table, {})
            if c is None: return None, None
            if c in tab: return c, tab[c]
            for key, rep in tab.items():
                if "$" not in key: continue
                names = re.findall(r"\$\$?(\w+)", key)
                if table == "exprs" and any(n[0].isupper() and n not in self.sticky for n in names): continue
                seen = set()
                def grp(m):
                    ex, n = m.group(1), m.group(2)
                    if n in seen: return "(?P=%s)" % n
                    seen.add(n)
                    if ex: return "(?P<%s>.+?)" % n
                    if n in self.sticky: return "(?P<%s>%s)" % (n, re.escape(self.sticky[n]))
                    return "(?P<%s>[A-Za-z_][A-Za-z0-9_]*)" % n
                rx = re.sub(r"\\\$(\\\$)?(\w+)", grp, re.escape(key))
                m = re.fullmatch(rx, c)
                if m:
                    exprs = set(re.findall(r"\$\$(\w+)", key))
                    for n, v in m.groupdict().items():
                        if n in exprs:
                            if v.count("(") != v.count(")") or v.count("[") != v.count("]"): break      # not a well-bracketed sub-expression
                            rep = re.sub(r"\$\$" + n + r"\b", "(" + v.replace("\\", "\\\\") + ")", rep)
                            continue
                        if n[0].isupper(): self.sticky[n] = v
                        rep = rep.replace("${%s}" % n, v)
                        rep = re.sub(r"(?<!\$)\$" + n + r"\b", v, rep)
                    else:
                        return key, rep
            return None, None

        def snippet(self, text): return T.parse_snippet(text, "stmts", self.fn["name"])

        def releases(self, guards):
            out = []
            for (_, _, rel) in reversed(guards): out += self.snippet(rel)
            return out

        def block(self, blk):
            stmts, tail = blk
            saved_env = dict(self.env); outer = list(self.live); base = len(self.live)
            out = []; newtail = None; returned = False
            items = list(stmts) + ([("expr", tail, None, "tail")] if tail is not None else [])
            for s in items:
                istail = len(s) == 4 and s[3] == "tail"
                ln = None if istail else s[-1]
                returned = False
                if s[0] == "let" and isinstance(s[1], str) and s[4] is not None:
                    c = self.ctext(T.strip_paren(s[4]))
                    if c is not None and c in self.sk.get("guards", {}):
                        self.nacq[c] = self.nacq.get(c, 0) + 1
                        h = c if self.nacq[c] == 1 else f"{c}#{self.nacq[c]}"
                        acq, rel = self.sk["guards"][c]
                        self.used.add(c); self.env[s[1]] = T.Var("handle", h, rust=s[1]); self.live.append((s[1], h, rel))
                        out += self.snippet(acq); continue
                    if c is not None and c in self.sk.get("handles", []):
                        self.used.add(c); self.env[s[1]] = T.Var("handle", c, rust=s[1]); continue
                    key, rep = self.lookup("effects", None if c is None else f"let {s[1]} = {c}")
                    if key is not None:
                        self.used.add(key); out += self.snippet(rep); continue
                    if T.strip_paren(s[4])[0] == "blockexpr":
                        # `let x = { stmts; tail };` is flattened (the lowering has no block expressions): the block's statements, then `let x = tail`.
                        # Only guard / handle `let`s may occur inside (they are substituted away), so no inner name leaks into the outer scope.
                        inner, itail = self.block(T.strip_paren(s[4])[1])
                        if itail is None or any(q[0] == "let" and not q[1].startswith("gtail__") for q in inner):
                            self.lo.fail(f"block expression with local declarations / without a value (line {ln})")
                        out += inner; out.append(("let", s[1], s[2], s[3], itail, s[5])); continue
                    out.append(("let", s[1], s[2], s[3], self.expr(s[4]), s[5])); continue
                if s[0] == "expr":
                    e0 = T.strip_paren(s[1])
                    if e0[0] == "call" and e0[1] == ["drop"] and len(e0[2]) == 1 and e0[2][0][0] == "path" and len(e0[2][0][1]) == 1:
                        g = e0[2][0][1][0]
                        hit = [x for x in self.live if x[0] == g]
                        if not hit: self.lo.fail(f"`drop({g})`: not a live lock guard")
                        if self.live.index(hit[0]) < base: self.lo.fail(f"`drop({g})` inside a nested block (the guard is declared outside)")
                        self.live.remove(hit[0]); out += self.snippet(hit[0][2]); continue
                if s[0] in ("expr", "assign"):
                    c = self.ctext(T.strip_paren(s[1])) if s[0] == "expr" else self.canon(s)
                    key, rep = self.lookup("effects", c)
                    if key is not None:
                        self.used.add(key); out += self.snippet(rep); continue
                if s[0] == "for" and isinstance(s[1], str):
                    it = self.ctext(T.strip_paren(s[2]))
                    key, rep = self.lookup("effects", None if it is None else f"for {s[1]} in {it}")
                    if key is not None:
                        self.used.add(key); out += self.snippet(rep); continue
                    n0 = len(self.live)
                    out.append(("for", s[1], self.expr(s[2]), self.block(s[3]), s[4])); continue
                if s[0] == "unsafe" and self.sk.get("unsafe_transparent"):
                    # `unsafe { stmts }` whose statements ALL have readings in the table: flattened (its `let`s are pseudo-locals `x__lo`, `x__len`)
                    inner, itail = self.block(s[1])
                    if itail is not None: self.lo.fail("`unsafe` block with a value")
                    out += inner; continue
                if s[0] == "unsafe":
                    if "unsafe" not in self.sk.get("effects", {}): self.lo.fail("`unsafe` block without a reading in the skeleton table")
                    self.used.add("unsafe"); out += self.snippet(self.sk["effects"]["unsafe"]); continue
                if s[0] == "expr":
                    e2 = self.expr(s[1])
                    unit_if = e2[0] == "if" and e2[2][1] is None and (e2[3] is None or (isinstance(e2[3], tuple) and len(e2[3]) == 2 and e2[3][1] is None))
                    if istail and not unit_if: newtail = e2
                    else: out.append(("expr", e2, s[2] if len(s) > 2 else None))
                elif s[0] == "assign": out.append(("assign", self.expr(s[1]), s[2], self.expr(s[3]), s[4]))
                elif s[0] == "return" and s[1] is None and self.sk.get("epilogue"):
                    out += self.releases(self.live)          # every live guard goes out of scope, innermost first
                    epi = self.snippet(self.sk["epilogue"])
                    if epi and epi[-1][0] == "expr" and epi[-1][2] is None: out += epi[:-1] + [("return", epi[-1][1], s[2])]
                    else: out += epi + [("return", None, s[2])]
                    returned = True
                else: self.lo.fail(f"conc mode: statement `{s[0]}` (line {ln}) has no reading")
            own = self.live[base:]
            if self.live[:base] != outer[:base]: self.lo.fail("a lock guard of an enclosing block is released inside a nested block")
            if own and not returned:
                if newtail is not None:           # the tail expression is evaluated BEFORE the guards of this block are dropped
                    self.ntail = getattr(self, "ntail", 0) + 1; nm = "gtail__%d" % self.ntail
                    out.append(("let", nm, False, None, newtail, None)); newtail = ("path", [nm])
                out += self.releases(own)
            self.live = outer; self.env = saved_env
            return (out, newtail)

        def run(self):
            new = super().run()
            missing = [g for g in self.sk.get("guards", {}) if g not in self.used]
            if missing: self.lo.fail(f"skeleton guards never acquired: {missing}")
            return new

    return ConcSkeleton


# ------------------------------------------------------------------------------------------------ tables (TRUSTED readings)
KCD = "self.context.key_context_data().unwrap()"
GR = "self.secret_key_array.read().unwrap()"; GW = "self.secret_key_array.write().unwrap()"
RW_GUARDS = {GR: ("trace.push(1);", "trace.push(2);"), GW: ("trace.push(3);", "trace.push(4);")}

# `compute_secret_key_array` (Decryptor and KeyGenerator: the same table).  Observations: `len_r` / `len_w` = `len()` of the shared vector
# under the read / the write lock.  The local array is tracked by its length `arr_len` (its CONTENTS are the hand model's `newArr`);
# `copy_from_slice` panics unless both ranges are in bounds and equally long; the compute loop is translated (see the table).
SK_COMPUTE = {
    "sig": "fn compute_secret_key_array(max_power: usize, n: usize, k: usize, len_r: usize, len_w: usize) -> Vec<usize>",
    "prologue": "let mut trace = vec![];", "epilogue": "trace",
    "handles": [KCD, KCD + ".parms()", KCD + ".parms().coeff_modulus()"],
    "guards": RW_GUARDS, "unsafe_transparent": True,
    "exprs": {KCD + ".parms().coeff_modulus().len()": "k", KCD + ".parms().poly_modulus_degree()": "n",
              GR + ".len()": "len_r", GW + ".len()": "len_w", "$Arr.len()": "arr_len"},
    "effects": {
        "let $Arr = vec![0; $a * $b * $c]": "let arr_len = $a * $b * $c; trace.push(10); trace.push(arr_len);",
        "$Arr[..$a * $p].copy_from_slice(&%s[..$b * $q])" % GR:
            "assert!($a * $p <= arr_len); assert!($b * $q <= len_r); assert!($a * $p == $b * $q); trace.push(11); trace.push($b * $q);",
        # the compute loop is TRANSLATED (its trip count and the index arithmetic of the three raw slices come from the source):
        # `arr[lo..hi].as_mut_ptr()` / `arr[..hi].as_ptr()` = bounds check of the range, pointer to word `lo`; `from_raw_parts(ptr, len)` = the
        # `len` words from there; `dyadic_product_p(a, b, n, moduli, c)` = MUL: c := a * b (component-wise, all three inside the array)
        "let $x = $Arr[$$lo..$$hi].as_mut_ptr()": "assert!($$lo <= $$hi); assert!($$hi <= arr_len); let ${x}__lo = $$lo;",
        "let $x = $Arr[..$$hi].as_ptr()": "assert!($$hi <= arr_len); let ${x}__lo = 0;",
        "let $x = std::slice::from_raw_parts($x, $p)": "let ${x}__len = $p;",
        "let $x = std::slice::from_raw_parts_mut($x, $p)": "let ${x}__len = $p;",
        "polymod::dyadic_product_p($a, $b, $n, %s.parms().coeff_modulus(), $c)" % KCD:
            "assert!(${a}__lo + ${a}__len <= arr_len); assert!(${b}__lo + ${b}__len <= arr_len); assert!(${c}__lo + ${c}__len <= arr_len); "
            "trace.push(12); trace.push(${a}__lo); trace.push(${a}__len); trace.push(${b}__lo); trace.push(${b}__len); trace.push(${c}__lo); trace.push(${c}__len);",
        "*%s = $Arr" % GW: "trace.push(13); trace.push(arr_len);"},
    # a variant without the re-check does not read the length under the write lock: it is TRANSLATED (and breaks the equality theorem)
    "optional": [GW + ".len()"]}

# `Decryptor::dot_product_ct_sk_array`: the use phase.  `len_u` = `len()` of the snapshot taken under the use phase's read lock.
CDL = "self.context.get_context_data(encrypted.parms_id()).unwrap()"
SKA = GR + ".as_ref()"
SK_DOT = {
    "sig": "fn dot_product_ct_sk_array(size: usize, n: usize, k: usize, kkey: usize, ntt: bool, len_u: usize) -> Vec<usize>",
    "prologue": "let mut trace = vec![];", "epilogue": "trace",
    "handles": [CDL, CDL + ".parms()", CDL + ".parms().coeff_modulus()", CDL + ".small_ntt_tables()", SKA],
    "guards": {GR: RW_GUARDS[GR]},
    "exprs": {CDL + ".parms().coeff_modulus().len()": "k", CDL + ".parms().poly_modulus_degree()": "n", "encrypted.size()": "size",
              KCD + ".parms().coeff_modulus().len()": "kkey", "encrypted.is_ntt_form()": "ntt", SKA + ".len()": "len_u"},
    "optional": [SKA + ".len()"],      # (a variant that derives the stride from the snapshot's length is translated)
    "effects": {
        "self.compute_secret_key_array($e - 1)": "trace.push(14); trace.push($e - 1);",
        "unsafe": "trace.push(16);",
        "let $Copy = encrypted.data()[$p..].to_vec()": "",
        "assert!($Copy.len() == ($e - 1) * $a * $b)": "",
        "polymod::ntt_ps(&mut $Copy, $e - 1, $a, %s.small_ntt_tables())" % CDL: "",
        "polymod::dyadic_product_inplace_p(&mut $Copy[$i * $p..($i2 + 1) * $p2], &%s[$j * $s..$j2 * $s2 + $w], $a, %s.parms().coeff_modulus())" % (SKA, CDL):
            "assert!($j * $s <= $j2 * $s2 + $w); assert!($j2 * $s2 + $w <= len_u); trace.push(15); trace.push($j * $s); trace.push($j2 * $s2 + $w);",
        "destination.fill(0)": "",
        "polymod::add_inplace_p(destination, &$Copy[$i * $p..($i2 + 1) * $p2], $a, %s.parms().coeff_modulus())" % CDL: "",
        "polymod::intt_p(destination, $a, %s.small_ntt_tables())" % CDL: "",
        "polymod::add_inplace_p(destination, encrypted.poly(0), $a, %s.parms().coeff_modulus())" % CDL: ""}}

# `KeyGenerator::generate_rlk`: the use phase.  `generate_kswitch_keys(&g[d..], count, ..)` reads `count` polynomials of the key level
# (d' = degree x key primes words each, src/key.rs:590) from the slice: KEYS off cnt.
SK_RLK = {
    "sig": "fn generate_rlk(count: usize, sk_generated: bool, n: usize, k: usize, len_u: usize) -> Vec<usize>",
    "prologue": "let mut trace = vec![];", "epilogue": "trace",
    "handles": [KCD, KCD + ".parms()", KCD + ".parms().coeff_modulus()"],
    "guards": {GR: RW_GUARDS[GR]},
    "exprs": {KCD + ".parms().coeff_modulus().len()": "k", KCD + ".parms().poly_modulus_degree()": "n", "self.sk_generated": "sk_generated"},
    "effects": {
        "self.compute_secret_key_array(count + 1)": "trace.push(14); trace.push(count + 1);",
        "let $Keys = RelinKeys::default()": "",
        "self.generate_kswitch_keys(&%s[$d..], count, &mut $Keys.keys, save_seed)" % GR: "assert!($d <= len_u); trace.push(17); trace.push($d); trace.push(count);",
        "$Keys.set_parms_id(*%s.parms_id())" % KCD: "",
        "$Keys": ""}}

# `GaloisTool::apply_ntt`.  Observations: `lens_k` / `lens_u` = the lengths of all permutation tables under the first (check) / the last
# (use) read lock; indexing is bounds-checked.  `generate_table_ntt` is a pure function of the element (tied in Gen/GaloisFns.lean).
PR = "self.permutation_tables.read().unwrap()"; PW = "self.permutation_tables.write().unwrap()"
SK_APPLY_NTT = {
    "sig": "fn apply_ntt(idx: usize, coeff_count: usize, result_len: usize, lens_k: &[u64], lens_u: &[u64]) -> Vec<usize>",
    "prologue": "let mut trace = vec![];", "epilogue": "trace",
    "guards": {PR: ("trace.push(1);", "trace.push(2);"), PW: ("trace.push(3);", "trace.push(4);")},
    "exprs": {"Self::get_index_from_elt(galois_elt)": "idx", "(*%s)[$i].is_empty()" % PR: "lens_k[$i] == 0",
              "result.len()": "result_len", "self.coeff_count": "coeff_count"},
    "effects": {
        "(*%s)[$i] = self.generate_table_ntt(galois_elt)" % PW: "trace.push(20); trace.push($i);",
        "let $Tab = &(*%s#2)[$i]" % PR: "let tab_len = lens_u[$i]; trace.push(21); trace.push($i); trace.push(tab_len);",
        "result.iter_mut().zip($Tab.iter()).for_each(|(r, &t)| *r = operand[t])": ""}}


def files(T):
    EN = "src/encryptor.rs"; KY = "src/key.rs"; UG = "src/util/galois.rs"; UB = "src/util/basic.rs"
    cls = make(T)
    def ent(file, fn, impl, lean, sk, **kw):
        return dict({"file": file, "fn": fn, "impl": impl, "lean": lean, "skeleton": sk, "skeleton_class": cls, "panic_escape": True, "for_escape": True,
                     "model": "Model/Conc.lean (Proofs/GenConc.lean)"}, **kw)
    table = [
        ent(EN, "compute_secret_key_array", "Decryptor", "dec_compute_secret_key_array", SK_COMPUTE),
        ent(KY, "compute_secret_key_array", "KeyGenerator", "kg_compute_secret_key_array", SK_COMPUTE),
        ent(EN, "dot_product_ct_sk_array", "Decryptor", "dec_dot_product_ct_sk_array", SK_DOT),
        ent(KY, "generate_rlk", "KeyGenerator", "kg_generate_rlk", SK_RLK, consts={"HE_CIPHERTEXT_SIZE_MAX": UB}),
        ent(UG, "apply_ntt", "GaloisTool", "galois_apply_ntt", SK_APPLY_NTT),
    ]
    return [("ConcFns.lean", {"ns": "GenConc", "imports": ["Heathcliff.Gen.WordFns"], "opens": ["HC.GenW"], "table": table})]
