#!/bin/bash
# usage: tools/seedregress2.sh [-j N] [seeded-id ...]   (default: every directory under seeded/, 3 at a time)
# Regression over the archived seeded changes with ISOLATED copies (like tools/seedtest2.sh): each change gets a scratch worktree of /repo
# with its patch and a private copy of this verification tree (incl. the Lean build cache), so changes are tested in parallel and the tree the
# script runs from is never touched.  One line per change: DETECTED / DETECTED-NFIF (only as no-failing-input-found) / MISSED / PATCH-DOES-NOT-APPLY.
set -u
ROOT=$(cd "$(dirname "$0")/.." && pwd)
J=3; if [ "${1:-}" = "-j" ]; then J=$2; shift 2; fi
IDS=${@:-$(ls $ROOT/seeded)}
one() {
  id=$1; P=${id%%-*}; D=$ROOT/seeded/$id; S=/tmp/seedrun2/reg-$id
  rm -rf $S; mkdir -p $S
  git -C /repo worktree add --detach $S/repo HEAD -q 2>/dev/null
  if ! git -C $S/repo apply $D/patch.diff 2>/dev/null; then echo "$id PATCH-DOES-NOT-APPLY"; git -C /repo worktree remove --force $S/repo; rm -rf $S; return; fi
  rsync -a --exclude .git --exclude build --exclude seeded --exclude replays $ROOT/ $S/verif/
  sed -i "s#path = \"/repo\"#path = \"$S/repo\"#" $S/verif/harness/Cargo.toml
  mkdir -p $S/verif/build; cp -r $ROOT/build/cargo $S/verif/build/cargo 2>/dev/null
  out=$(cd $S/verif && VERIF_REPO=$S/repo timeout 3000 ./check $P --tier quick 2>&1 | grep -E "^VIOLATION|^OK|^KNOWN" | head -1 | cut -c1-200)
  case "$out" in *no-failing-input-found*) echo "$id DETECTED-NFIF  $out";; VIOLATION*) echo "$id DETECTED  $out";; *) echo "$id MISSED    $out";; esac
  git -C /repo worktree remove --force $S/repo; rm -rf $S
}
export -f one; export ROOT
printf "%s\n" $IDS | xargs -P $J -I{} bash -c 'one {}'
