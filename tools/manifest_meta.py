"""Human-written manifest texts per property."""
HOOK_COMMITS = ["ee30b06"]
NOTES = ("Technique family: machine-checked proof in Lean 4. Every check = (1) Gen/*.lean re-extracted from /repo's working tree, "
         "(2) lake build of the property's theorems + #print axioms audit, (3) correspondence: the real code (harness, in-process) vs the "
         "executable Lean model and spec on generated cases; impl!=spec is a violation with the case as replay, a broken proof obligation or "
         "impl!=model triggers a search for a failing input and is otherwise reported as no-failing-input-found. Defects of the pinned tree "
         "that were repaired are listed in known_findings.json (status fixed).")
NOT_APPLICABLE = {}
CHECKS = {}
CHECKS["C08"] = {
    "text": "Lean theorems state, for every modulus 2 <= q < 2^61 built by the model of Modulus::new and every operand in the documented range, that each modelled word-level primitive returns `.ok` of the exact residue (lazy form: congruent and < 2q), and that the multi-word helpers agree with arbitrary-precision arithmetic (toNat-level equalities for all lengths). The model is tied to the code by bit-exact correspondence on boundary-heavy inputs, exhaustively for all moduli < 2^7 in the thorough tier.",
    "note": "Trusted: Lean kernel; rustc's u128 arithmetic; the correspondence (sampled except the small exhaustive universe) for model = code; Modulus::new's shift-subtract division is modelled by its quotient/remainder inside mk? (divide_uint's loop is modelled separately and compared). Theorems not yet proved for a function are listed in DESIGN.md §6 C08 status; for those the check is correspondence + spec oracle only.",
    "technique": "Lean 4 theorems over an executable model + differential correspondence with the Rust code",
}
