"""Human-written manifest texts per property."""
HOOK_COMMITS = ["ee30b06", "a93bb16"]
NOTES = ("Technique family: machine-checked proof in Lean 4. Every check = (1) Gen/*.lean re-extracted from /repo's working tree, "
         "(2) lake build of the property's theorems + #print axioms audit, (3) correspondence: the real code (harness, in-process) vs the "
         "executable Lean model and spec on generated cases; impl!=spec is a violation with the case as replay, a broken proof obligation or "
         "impl!=model triggers a search for a failing input and is otherwise reported as no-failing-input-found. Defects of the pinned tree "
         "that were repaired are listed in known_findings.json (status fixed).")
NOT_APPLICABLE = {}
CHECKS = {}
CHECKS["C08"] = {
    "text": "Lean theorems state, for every modulus 2 <= q < 2^61 built by the model of Modulus::new and every operand in the documented range, that each modelled word-level primitive returns `.ok` of the exact residue (lazy form: congruent and < 2q), and that the multi-word helpers agree with arbitrary-precision arithmetic (toNat-level equalities for all lengths). The model is tied to the code by bit-exact correspondence on boundary-heavy inputs, exhaustively for all moduli < 2^7 in the thorough tier.",
    "note": "Trusted: Lean kernel; rustc's u128 arithmetic; the correspondence (sampled except the small exhaustive universe) for model = code; Modulus::new's shift-subtract division is modelled by its quotient/remainder inside mk? (divide_uint's loop is modelled separately and compared). Theorems not yet proved for a function are listed in DESIGN.md §6 C08 status; for those the check is correspondence + spec oracle only.",
    "technique": "Lean 4 theorems over an executable model + differential correspondence with the Rust code",
}

CHECKS["C09"] = {
    "text": "Lean theorems over the model of DWTHandler / NTTTables: for any commutative ring and any psi with psi^N = -1 the forward butterfly network with the bit-reversed root table outputs a(psi^(2*brev(i)+1)), the inverse network with the scrambled inverse table undoes it up to the factor N (cancelled by the N^-1 scalar), and the inverse transform of a pointwise product is the negacyclic product; the lazy modular instance simulates the exact network over ZMod q with all values in [0,4q) forward / [0,2q) inverse for every q < 2^61 (no u64 overflow); for prime q the minimal primitive root does not depend on the primitive root the random search found. Tied to the code by bit-exact correspondence of tables and transforms (all unit vectors for small N) and by the O(N^2) evaluation spec.",
    "note": "Trusted: Lean kernel; correspondence for model = code (sampled; unit vectors exhaustive for N <= 32 quick / 256 thorough); the random primitive-root search is an input of the model; Modulus::is_prime (Miller-Rabin, 40 random rounds) enters as a Boolean; the driver's own primality test is deterministic Miller-Rabin with 12 bases (published bound, trusted).",
    "technique": "Lean 4 theorems (generic ring + ZMod simulation) over an executable model + differential correspondence with the Rust code",
}

CHECKS["C10"] = {
    "text": "Lean theorems over the model of RNSBase / BaseConverter / RNSTool: CRT tables well formed, decompose and compose mutually inverse bijections below the base product, fast base conversion = x + alpha*Q with one 0 <= alpha < k for all output moduli, division by the last prime = nearest integer (coefficient and NTT form), BGV variant preserves the value mod t up to q_last^-1, and the integer lemmas behind the BEHZ steps (Montgomery reduction, fast floor, Shenoy-Kumaresan, gamma-corrected scale-and-round). The model of every routine (incl. RNSTool::new with all its constants) is compared bit-exactly with the code and with big-integer specs on boundary-heavy inputs; small bases exhaustively in the thorough tier.",
    "note": "Trusted: Lean kernel; correspondence for model = code; exact_convey_array/decrypt_mod_t round a sum of f64: proved/specified with exact rational rounding, inputs within (k+1)*2^-46 of a tie are excluded (no claim); BEHZ lemmas are proved at the integer level for the per-coefficient formulas, the lifting to the array-level model is proved for divide_and_round_q_last and otherwise covered by correspondence; status of individual theorems: DESIGN.md C10.",
    "technique": "Lean 4 theorems (CRT, base conversion, rounding division, BEHZ integer lemmas) over an executable model + differential correspondence with the Rust code",
}

CHECKS["C01"] = {
    "text": "Lean theorems: the scaled plaintext multiply_add_plain adds is the nearest integer to q*m/t (model-level lemma on the word arithmetic); BFV scale round trip for every q, t >= 2, m < t and every noise with 2t(|v|+1) < q (upper-half values, q mod t != 0, any t); BGV lift round trip incl. correction factors; phase identities of public-key / secret-key encryptions in any commutative ring; ||a*b||_inf <= N ||a|| ||b|| for negacyclic products, hence the deterministic fresh-noise bound 21(2N+1) and exact decryption for every parameter set satisfying the decidable predicate FreshOK. The check dumps fresh ciphertexts of all three schemes / three modes / all levels with the secret key, recomputes the exact phase with big integers in the Lean driver (spec), runs the Lean model of dot_product_ct_sk_array + decrypt_scale_and_round / decrypt_mod_t (model) and compares both with Decryptor::decrypt and with the original plaintext, and checks the fresh noise against the proved bound.",
    "note": "Trusted: Lean kernel; correspondence (sampled parameter corners); the secret key is dumped through the library's inverse NTT (C09); CKKS clause partial: exact integers only (phase = plaintext + noise within the deterministic bound), the f64 encoder error is C12's subject; the composition `model decryption = spec decoding` rests on C10's scale-and-round lemma and is validated by correspondence.",
    "technique": "Lean 4 theorems (rounding round trips, ring identities, norm bound) + exact big-integer decryption oracle in Lean + differential correspondence",
}
CHECKS["C02"] = {
    "text": "Random well-typed BFV/BGV operation programs (all evaluator operations of the property, mixed operand sizes 2..6, both representations, all levels, BGV correction factors) are run on the real evaluator; every result is decrypted three ways: by the library, by the Lean model of decryption, and by exact big-integer phase computation in the Lean driver, and compared with the value of the shadow program in Z_t[X]/(X^N+1) wherever the conservative worst-case noise prediction leaves at least 4 bits. Lean theorems: ciphertext product index arithmetic is the Cauchy product for all size pairs, phase identities of add/sub/negate/plain operations incl. BGV correction-factor balancing (see DESIGN.md C02 status).",
    "note": "Trusted: Lean kernel; the shadow program is evaluated by the harness (Rust, 30 lines); the noise prediction only decides where a claim is made; BFV multiply (BEHZ) and key-switch noise magnitudes are not proved end to end (algebra only) — covered by the exact oracle on sampled programs.",
    "technique": "Lean 4 theorems (ciphertext algebra) + exact big-integer decryption oracle in Lean + differential correspondence on random operation programs",
}
