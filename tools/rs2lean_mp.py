"""Gen/MpFns.lean (worker W, round 7): SKELETONS of the multiparty protocols of src/multiparty/participant.rs ("mp mode").

The functions are executed SYMBOLICALLY, statement by statement.  Buffers (`Vec<u64>` holding one RNS polynomial) are values of an abstract
type α; the kernels of `polymod` are opaque steps with a TRUSTED reading as operations of `HC.MP.Ops α` (KERNELS below); the samplers of
`util::rlwe::sample` are draws from a tape (`HC.MP.draw kind tape`: the next polynomial of the tape, which must carry the sampler's tag);
accessor chains on the context are handles (rewritten to short tokens by REWRITES; locals that merely name a handle are substituted away, so
renaming them changes nothing); the operands (secret key, ciphertext / key polynomials) are the canonical texts of OPERANDS.
Every statement must match one of the accepted forms, everything else raises `Unsupported` (file, function, statement).
"""
import re
from rs2lean_ctx import split_stmts

MP = "src/multiparty/participant.rs"

# ---------------------------------------------------------------------------------------------------------------- canonical text
REWRITES = [
    (r"@P\.context(\(\))?", "@CTX"),
    (r"@CTX\.key_context_data\(\)\.unwrap\(\)", "@KEYCD"),
    (r"@CTX\.get_context_data\((self\.)?cipher\.parms_id\(\)\)\.unwrap\(\)", "@CTCD"),
    (r"@CTX\.get_context_data\(&self\.parms_id\)\.unwrap\(\)", "@OWNCD"),
    (r"@CTX\.first_context_data\(\)\.unwrap\(\)", "@FIRSTCD"),
    (r"@FIRST\.parms\.plain_modulus\(\)", "@FIRST.t"),
    (r"@(KEY|CT|OWN|FIRST)CD\.parms\(\)(\.clone\(\))?", r"@\1.parms"),
    (r"@(KEY|CT|OWN|FIRST)CD\.small_ntt_tables\(\)", r"@\1.tables"),
    (r"&?@(KEY|CT|OWN|FIRST)\.parms\.coeff_modulus\(\)", r"@\1.moduli"),
    (r"@(KEY|CT|OWN|FIRST)\.parms\.poly_modulus_degree\(\)", "@deg"),          # TRUSTED: the degree is the same at every level
    (r"@(KEY|CT|OWN|FIRST)\.parms\.parms_id\(\)", r"@\1.id"),
    (r"@(KEY|CT|OWN|FIRST)\.moduli\.len\(\)", r"@\1.count"),
    (r"&@KEY\.moduli\[0\.\.@KEY\.count-1\]", "@KEY.decomp"),
    (r"@KEY\.decomp\.len\(\)", "@KEY.dcount"),
    (r"@P\.participant_count", "@count"),
    (r"@P\.participant_id", "@pid"),
    (r"&?@P\.secret_key\(\)\.as_plaintext\(\)\.data\(\)\[\.\.@deg\*@(KEY|CT)\.count\]", r"@sk.\1"),
    (r"&?@P\.secret_key\(\)\.data\(\)", "@sk.KEY"),
]
# operands: canonical text -> (Lean parameter, reading)
OPERANDS = {
    "@sk.CT": ("sk", "the party's secret key (NTT form), the components of the ciphertext's level"),
    "@sk.KEY": ("sk", "the party's secret key (NTT form) at the key level"),
    "new_secret_key.data()": ("skNew", "the party's share of the new secret key (a kernel called with the level's moduli reads the level's components)"),
    "cipher.poly(1)": ("c1", "second polynomial of the ciphertext"),
    "new_public_key.as_ciphertext().poly(0)": ("pk0", "first polynomial of the target key (stride = the key's OWN component count; the kernel reads the level's components)"),
    "new_public_key.as_ciphertext().poly(1)[..@deg*@CT.count]": ("pk1", "second polynomial of the target key, the level's components"),
}
NATS = {"@KEY.count": "keyModCount", "@KEY.dcount": "(keyModCount - 1)", "@KEY.count-1": "(keyModCount - 1)", "@count": "count", "@pid": "pid"}
PARAM_ORDER = ["count", "pid", "keyModCount", "ctSize", "containsSeed", "validFor", "isNtt", "parmsIdZero", "sk", "skNew", "c0", "c1", "pk0", "pk1", "w"]
PARAM_TYPE = {"count": "Nat", "pid": "Nat", "keyModCount": "Nat", "ctSize": "Nat", "containsSeed": "Bool", "validFor": "Bool", "isNtt": "Bool",
              "parmsIdZero": "Bool", "w": "Nat → α"}


def squash(t):
    """whitespace-free text (a space is kept only between two identifier characters)"""
    t = " ".join(t.split())
    return re.sub(r"(?<![A-Za-z0-9_]) | (?![A-Za-z0-9_])", "", t)


def norm(t):
    t = " ".join(t.split())
    t = re.sub(r"([(\[]) ", r"\1", t); t = re.sub(r" ([)\],;])", r"\1", t); t = re.sub(r",\)", ")", t)
    return t


def split_args(t):
    out = []; d = 0; cur = ""
    for ch in t:
        if ch in "([{": d += 1
        elif ch in ")]}": d -= 1
        if ch == "," and d == 0: out.append(cur); cur = ""
        else: cur += ch
    if cur.strip(): out.append(cur)
    return [a.strip() for a in out]


class Exec:
    def __init__(self, m, what, level, self_is_participant, participants, parent=None):
        self.m = m; self.U = m.Unsupported; self.what = what; self.level = level
        self.selfp = self_is_participant; self.participants = participants
        self.env = {} if parent is None else dict(parent.env)      # local -> ("h", token) | ("buf", lean | None) | ("rng", tape) | ("vec", lean) | ("noise",) | ("op", lean)
        self.lines = []; self.params = set() if parent is None else parent.params
        self.tapes = set() if parent is None else parent.tapes
        self.touched = set(); self.ctr = [0] if parent is None else parent.ctr
        self.outer = set() if parent is None else {v[1] for v in parent.env.values() if v[0] in ("buf", "vec") and v[1]}
        self.readings = {} if parent is None else parent.readings
        self.loopvar = None if parent is None else parent.loopvar

    def child(self):
        sub = type(self)(self.m, self.what, self.level, self.selfp, self.participants, self)
        for a in ("out", "cts", "extra"):
            if hasattr(self, a): setattr(sub, a, getattr(self, a))
        return sub

    def fail(self, msg, stmt=""): raise self.U(f"{self.what}: {msg}" + (f" :: `{' '.join(stmt.split())[:160]}`" if stmt else ""))

    # ---------------------------------------------------------------- canonical text of an expression
    def canon(self, text):
        t = text
        def sub(mm):
            v = self.env.get(mm.group(0)); i = mm.start()
            if i >= 1 and mm.string[i - 1] == "." and not (i >= 2 and mm.string[i - 2] == "."): return mm.group(0)      # a field / method, not a local (`..x` is a range bound)
            return v[1] if v and v[0] == "h" else mm.group(0)
        t = re.sub(r"(?<![\w@])[a-z_]\w*\b(?!\s*[(!:])", sub, t)
        t = squash(t)
        names = list(self.participants) + ["self.participant", "self.s_reveal.participant"] + (["self"] if self.selfp else [])
        for p in sorted(names, key=len, reverse=True): t = re.sub(r"(?<![\w.@])%s(?=\.(context|secret_key|participant_count|participant_id|borrow_common_rng)\b)" % re.escape(p), "@P", t)
        if self.loopvar: t = re.sub(r"(?<![\w.@])%s\b" % self.loopvar, "@j", t)
        while True:
            t0 = t
            for rx, rep in REWRITES: t = re.sub(rx, rep, t)
            if t == t0: return t

    def use(self, p): self.params.add(p); return p

    def nat(self, text):
        c = self.canon(text)
        if c in NATS:
            n = NATS[c]; self.use(re.sub(r"[^A-Za-z]", " ", n).split()[0]); return n
        if c == "@j": return "j"
        self.fail(f"not a known count: `{c}`", text)

    def fresh(self, hint): self.ctr[0] += 1; return f"{hint}{self.ctr[0]}"

    # ---------------------------------------------------------------- reading a polynomial operand
    def rd(self, text):
        """Lean term (possibly `(← idxP v j)`) of a polynomial READ by a kernel"""
        t = text.strip()
        t = re.sub(r"^&(mut\b)?\s*", "", t)
        mm = re.fullmatch(r"(?:self\.)?([a-z_]\w*)", t)
        if mm and mm.group(1) in self.env or (mm and ("self." + mm.group(1)) in self.env):
            v = self.env.get(mm.group(1)) if not t.startswith("self.") else self.env[t]
            if v[0] == "buf":
                if not v[1]: self.fail(f"buffer `{t}` is read before it is (fully) written", text)
                return v[1]
            if v[0] == "op": self.use(v[1]); return v[1]
            self.fail(f"`{t}` is not a polynomial buffer", text)
        mm = re.fullmatch(r"((?:self\.)?[a-z_]\w*)\[(\w+)\]", t)
        if mm and self.env.get(mm.group(1), ("",))[0] == "vec":
            return f"(← idxP {self.env[mm.group(1)][1]} {self.nat(mm.group(2))})"
        c = self.canon(t)
        if c in OPERANDS:
            lv = c.split(".")[-1]
            if c.startswith("@sk.") and lv != self.level: self.fail(f"secret key restricted to level {lv} inside a function at level {self.level}", text)
            self.readings[c] = OPERANDS[c]
            return self.use(OPERANDS[c][0])
        self.fail(f"unknown polynomial operand `{c}`", text)

    def wr(self, text, term, monadic, stmt):
        """bind the result of a kernel to the destination buffer"""
        t = re.sub(r"^&mut\s+", "", text.strip())
        if t == text.strip() and not t.startswith("self."):
            # (destination passed without `&mut`: only a `&mut [u64]` PARAMETER, see sample_noise)
            if self.env.get(t, ("",))[0] != "bufparam": self.fail("destination is not passed as `&mut`", stmt)
        mm = re.fullmatch(r"((?:self\.)?[a-z_]\w*)\[(\w+)\]", t)
        arrow = "←" if monadic else ":="
        if mm and self.env.get(mm.group(1), ("",))[0] == "vec":
            v = self.env[mm.group(1)][1]; x = self.fresh("x")
            self.lines.append(f"let {x} {arrow} {term}")
            self.lines.append(f"let {v} ← setP {v} {self.nat(mm.group(2))} {x}")
            if v in self.outer: self.touched.add(v)
            return
        key = t
        v = self.env.get(key)
        if not v or v[0] not in ("buf", "bufparam"): self.fail(f"destination `{t}` is not a local polynomial buffer", stmt)
        name = v[1] if v[1] else self.fresh("b")
        self.lines.append(f"let {name} {arrow} {term}")
        self.env[key] = (v[0], name)
        if name in self.outer: self.touched.add(name)

    def chk(self, text, kind, stmt):
        """a degree / moduli / tables argument: must be the function's level"""
        c = self.canon(text)
        ok = {"deg": ["@deg"], "mod": [f"@{self.level}.moduli"], "tab": [f"@{self.level}.tables"], "parms": [f"@{self.level}.parms", f"&@{self.level}.parms"]}[kind]
        if c not in ok: self.fail(f"argument `{c}` is not the {kind} of level {self.level}", stmt)

    def tape_of(self, text, stmt):
        t = re.sub(r"^&mut\s+", "", text.strip())
        v = self.env.get(t)
        if not v or v[0] != "rng": self.fail(f"`{t}` is not a generator", stmt)
        self.tapes.add(v[1]);
        if v[1] in self.outer or True: self.touched.add(v[1])
        return v[1]

    # ---------------------------------------------------------------- kernels
    def kernel(self, path, args, stmt):
        A = args
        def n(k):
            if len(A) != k: self.fail(f"{path}: {len(A)} arguments", stmt)
        if path in ("polymod::sub_inplace_p", "polymod::add_inplace_p", "polymod::dyadic_product_inplace_p"):
            n(4); self.chk(A[2], "deg", stmt); self.chk(A[3], "mod", stmt)
            op = {"sub": "sub", "add": "add", "dya": "mul"}[path.split("::")[1][:3]]
            x = self.rd(A[0]); y = self.rd(A[1]); self.wr(A[0], f"o.{op} {x} {y}", True, stmt)
        elif path == "polymod::dyadic_product_p":
            n(5); self.chk(A[2], "deg", stmt); self.chk(A[3], "mod", stmt)
            x = self.rd(A[0]); y = self.rd(A[1]); self.wr(A[4], f"o.mul {x} {y}", True, stmt)
        elif path == "polymod::negate_inplace_p":
            n(3); self.chk(A[1], "deg", stmt); self.chk(A[2], "mod", stmt)
            self.wr(A[0], f"o.neg {self.rd(A[0])}", True, stmt)
        elif path in ("polymod::ntt_p", "polymod::intt_p"):
            n(3); self.chk(A[1], "deg", stmt); self.chk(A[2], "tab", stmt)
            self.wr(A[0], f"o.{'toNtt' if path.endswith('::ntt_p') else 'fromNtt'} {self.rd(A[0])}", False, stmt)
        elif path in ("rlwe::sample::ternary", "rlwe::sample::uniform", "crate::util::rlwe::sample::uniform"):
            n(3); tp = self.tape_of(A[0], stmt); self.chk(A[1], "parms", stmt)
            kind = path.split("::")[-1]
            x = self.fresh("d")
            self.lines.append(f"let ({x}, {tp}) ← draw .{kind} {tp}")
            self.wr(A[2], x, False, stmt)
        elif path == "sample_noise":
            n(6); tp = self.tape_of(A[0], stmt); self.chk(A[1], "deg", stmt); self.chk(A[2], "parms", stmt); self.chk(A[3], "tab", stmt)
            if A[4] not in ("true", "false"): self.fail("sample_noise: the form flag is not a literal", stmt)
            x = self.fresh("d")
            self.lines.append(f"let ({x}, {tp}) ← sample_noise o sch t {A[4]} {tp}")
            self.wr(A[5], x, False, stmt)
        else: self.fail(f"no trusted reading for the call `{path}`", stmt)

    # ---------------------------------------------------------------- statements
    def run(self, text):
        st = split_stmts(text, self.what, self.U)
        tail = text[st[-1][1] if st else 0:].strip()
        k = 0
        while k < len(st):
            s = norm(text[st[k][0]:st[k][1]])
            k += self.stmt(s, [norm(text[a:b]) for a, b in st[k + 1:k + 3]])
        return tail

    def stmt(self, s, nxt):
        """one statement; returns the number of statements consumed"""
        if re.fullmatch(r"use [\w:]+;", s): return 1
        mm = re.fullmatch(r'assert_eq!\(cipher\.size\(\), 2, "[^"]*"\);', s)
        if mm: self.lines.append(f"need ({self.use('ctSize')} == 2)"); return 1
        mm = re.fullmatch(r'if (.*?) \{ panic!\("[^"]*"\); \}', s)
        if mm:
            c = squash(mm.group(1))
            conds = {"cipher.contains_seed()": ("containsSeed", "!{}"), "!cipher.is_valid_for(@CTX)": ("validFor", "{}"),
                     "cipher.size()<crate::util::HE_CIPHERTEXT_SIZE_MIN": ("ctSize", "decide (HC.Gen.HE_CIPHERTEXT_SIZE_MIN ≤ {})")}
            c = self.canon(mm.group(1))
            if c not in conds: self.fail(f"panicking `if` on an unknown condition `{c}`", s)
            p, f = conds[c]; self.lines.append("need (" + f.format(self.use(p)) + ")"); return 1
        mm = re.fullmatch(r"let (mut )?([a-z_]\w*)(?:: [\w<>\[\]& ]+)? = (.*);", s)
        if mm: return self.let(mm.group(2), bool(mm.group(1)), mm.group(3), s, nxt)
        mm = re.fullmatch(r"if !([a-z_]\w*) \{ (.*) \}", s)
        if mm and self.env.get(mm.group(1)) == ("h", "@isNtt"):
            sub = self.child()
            inner = mm.group(2)
            if sub.run(inner): sub.fail("value at the end of an `if` block", s)
            if len(sub.lines) != 1 or not re.fullmatch(r"let (\w+) := (o\.(toNtt|fromNtt) \1)", sub.lines[0]):
                self.fail("`if !is_ntt_form { .. }`: only ONE representation change of one buffer is accepted in the block", s)
            m2 = re.fullmatch(r"let (\w+) := (.*)", sub.lines[0])
            self.lines.append(f"let {m2.group(1)} := if !{self.use('isNtt')} then {m2.group(2)} else {m2.group(1)}")
            if m2.group(1) in self.outer: self.touched.add(m2.group(1))
            return 1
        mm = re.fullmatch(r"if (.*?) \{ (.*) \}", s)
        if mm and self.canon(mm.group(1)) == "@pid!=0": return self.if_not_first(mm.group(2), s)
        mm = re.fullmatch(r"([a-z_]\w*)\.copy_from_slice\(&([a-z_]\w*)\);", s)
        if mm:
            self.wr("&mut " + mm.group(1), self.rd(mm.group(2)), False, s); return 1
        mm = re.fullmatch(r"([a-z_]\w*)\.push\(([a-z_]\w*)\);", s)
        if mm:
            v = self.env.get(mm.group(1))
            if not v or v[0] != "vec": self.fail("push onto something that is not a vector of polynomials", s)
            x = self.rd(mm.group(2)); self.lines.append(f"let {v[1]} := {v[1]} ++ [{x}]")
            self.env[mm.group(2)] = ("moved", None)
            if v[1] in self.outer: self.touched.add(v[1])
            return 1
        mm = re.fullmatch(r"([a-z_]\w*)\.reserve_exact\((.*)\);", s)
        if mm and self.env.get(mm.group(1), ("",))[0] == "vec": self.nat(mm.group(2)); return 1
        mm = re.fullmatch(r"for (_?[a-z]\w*) in 0\.\.(.*?) \{ (.*) \}", s)
        if mm: return self.loop(mm.group(1), mm.group(2), mm.group(3), s)
        mm = re.fullmatch(r"([A-Za-z_][\w:]*)\((.*)\);", s)
        if mm:
            path, args = mm.group(1), split_args(mm.group(2))
            v = self.env.get(path)
            if v and v[0] == "noise":       # the closure `|prng, output| sample_noise(prng, .., true, output)`
                if len(args) != 2: self.fail("noise closure: 2 arguments expected", s)
                tp = self.tape_of(args[0], s); x = self.fresh("d")
                self.lines.append(f"let ({x}, {tp}) ← sample_noise o sch t true {tp}"); self.wr(args[1], x, False, s); return 1
            if path == "polymod::multiply_scalar": return self.gadget(args, nxt, s)
            self.kernel(path, args, s); return 1
        self.fail("statement outside the accepted subset", s)

    def gadget(self, args, nxt, s):
        """`multiply_scalar(&S[j*d..(j+1)*d], f, &M[j], &mut T[0..d]); add_inplace(&mut H[j*d..(j+1)*d], &T[0..d], &M[j]);` with
        f = M[j].reduce(M[count-1].value()):  H += S * w_j,  w_j = (P mod q_j) in component j, zero elsewhere (TRUSTED, shape-checked)"""
        if len(args) != 4 or not nxt: self.fail("gadget step: unexpected shape", s)
        m1 = re.fullmatch(r"&([a-z_]\w*)\[(.*)\]", args[0]); m4 = re.fullmatch(r"&mut ([a-z_]\w*)\[(.*)\]", args[3])
        if not m1 or not m4: self.fail("gadget step: slices expected", s)
        comp = "@j*@deg..(@j+1)*@deg"
        if self.canon(m1.group(2)) != comp or self.canon(m4.group(2)) != "0..@deg": self.fail("gadget step: component ranges", s)
        if self.canon(args[1]) != "@KEY.moduli[@j].reduce(@KEY.moduli[@KEY.count-1].value())": self.fail(f"gadget step: factor is `{self.canon(args[1])}`", s)
        if self.canon(args[2]) != "&@KEY.moduli[@j]": self.fail("gadget step: modulus", s)
        src = self.rd(m1.group(1)); tmp = m4.group(1)
        m5 = re.fullmatch(r"polymod::add_inplace\(&mut ([a-z_]\w*)\[(.*)\], &([a-z_]\w*)\[(.*)\], (.*)\);", nxt[0])
        if not m5 or self.canon(m5.group(2)) != comp or m5.group(3) != tmp or self.canon(m5.group(4)) != "0..@deg" or self.canon(m5.group(5)) != "&@KEY.moduli[@j]":
            self.fail("gadget step: the statement after `multiply_scalar` is not the matching `add_inplace` of the same component", nxt[0])
        if self.level != "KEY": self.fail("gadget step outside the key level", s)
        h = self.rd(m5.group(1))
        y = self.fresh("g")
        self.lines.append(f"let {y} ← o.mul {src} ({self.use('w')} j)")
        self.wr("&mut " + m5.group(1), f"o.add {h} {y}", True, s)
        self.env[tmp] = ("buf", None)      # partially overwritten: undefined until fully written again
        return 2

    def let(self, name, mut, rhs, s, nxt):
        r = rhs.strip()
        if re.fullmatch(r"vec!\[0; .*\]", r): self.env[name] = ("buf", None); return 1
        if r in ("vec![]", "Vec::new()") or re.fullmatch(r"Vec::with_capacity\(.*\)", r):
            v = self.fresh("v"); self.lines.append(f"let {v} : List α := []"); self.env[name] = ("vec", v)
            nx = nxt[0] if nxt else ""
            if re.fullmatch(r"%s\.reserve_exact\(.*\);" % name, nx): return 2
            return 1
        mm = re.fullmatch(r"(.*)\.(to_vec|clone)\(\)", r)
        if mm and not r.startswith("@") :
            try_buf = None
            c = self.canon(mm.group(1))
            base = re.sub(r"^&", "", mm.group(1).strip())
            if base in self.env and self.env[base][0] == "buf" or c in OPERANDS or (base in self.env and self.env[base][0] == "op"):
                x = self.rd(mm.group(1)); b = self.fresh("b")
                self.lines.append(f"let {b} := {x}"); self.env[name] = ("buf", b); return 1
        if re.fullmatch(r"(self|@P|participant)\.context(\(\))?\.create_random_generator\(\)", squash(re.sub(r"^&mut ", "", r))) or \
           self.canon(re.sub(r"^&mut ", "", r)) == "@CTX.create_random_generator()":
            self.env[name] = ("rng", "selfTape"); self.tapes.add("selfTape"); return 1
        if self.canon(re.sub(r"^&mut ", "", re.sub(r" as &mut BlakeRNG$", "", r))) in ("@P.borrow_common_rng()", "self.borrow_common_rng()"):
            self.env[name] = ("rng", "commonTape"); self.tapes.add("commonTape"); return 1
        mm = re.fullmatch(r"\|([a-z_]\w*): &mut BlakeRNG, ([a-z_]\w*): &mut \[u64\]\| \{ sample_noise\((.*)\); \}", r)
        if mm:
            a = split_args(mm.group(3))
            if len(a) != 6 or a[0] != mm.group(1) or a[5] != mm.group(2) or a[4] != "true": self.fail("noise closure: unexpected shape", s)
            self.chk(a[1], "deg", s); self.chk(a[2], "parms", s); self.chk(a[3], "tab", s)
            self.env[name] = ("noise",); return 1
        c = self.canon(r)
        if c in OPERANDS or c in ("@sk.KEY",):
            self.readings[c] = OPERANDS[c]; self.env[name] = ("op", OPERANDS[c][0]); return 1
        if c == "cipher.is_ntt_form()": self.env[name] = ("h", "@isNtt"); return 1
        if c == "self.participant": self.participants.add(name); return 1
        if re.fullmatch(r"[&*]?@[\w.]+(\[@j\]\.reduce\(@KEY\.moduli\[@KEY\.count-1\]\.value\(\)\))?", c) and "(" not in c.split("[")[0]:
            self.env[name] = ("h", re.sub(r"^[*]", "", c)); return 1
        self.fail(f"`let {name} = ..`: right-hand side `{c}` outside the accepted subset", s)

    def loop(self, var, bound, body, s):
        n = self.nat(bound)
        sub = self.child()
        sub.loopvar = var
        if sub.run(body): sub.fail("value at the end of a loop body", s)
        for k, v in sub.env.items():       # buffers the body left partially written / moved stay so
            if k in self.env and self.env[k][0] == "buf" and v[0] == "buf" and self.env[k][1] is None: self.env[k] = ("buf", None)
        carried = sorted(x for x in sub.touched if x in sub.outer or x in ("selfTape", "commonTape"))
        for k, v in self.env.items():
            if v[0] == "buf" and v[1] and sub.env.get(k) != v and v[1] not in carried: self.fail(f"buffer `{k}` defined outside the loop is rebound inside it", s)
        tup = "(" + ", ".join(carried) + ")" if len(carried) != 1 else carried[0]
        self.lines.append(f"let {tup} ← loopM {n} (fun j {tup} => do")
        self.lines += ["    " + l for l in sub.lines] + [f"    pure {tup}) {tup}"]
        self.touched |= set(carried)
        return 1

    def if_not_first(self, body, s): self.fail("`if participant_id != 0` blocks are not translated yet", s)


# ---------------------------------------------------------------------------------------------------------------- struct literals
def parse_struct_lit(text, U, what):
    """`Name { f: e, g, h: Other { .. } }` -> (Name, [(field, expr | nested)])"""
    mm = re.match(r"\s*(\w+)\s*\{", text)
    if not mm or not text.rstrip().endswith("}"): raise U(f"{what}: struct literal expected :: `{' '.join(text.split())[:120]}`")
    inner = text[mm.end():text.rstrip().rfind("}")]
    out = []
    for a in split_args(inner):
        if not a: continue
        m2 = re.match(r"(\w+)\s*:\s*(.*)$", a, re.S)
        if m2:
            v = m2.group(2).strip()
            out.append((m2.group(1), parse_struct_lit(v, U, what) if re.match(r"\w+\s*\{", v) else " ".join(v.split())))
        else: out.append((a.strip(), a.strip()))
    return mm.group(1), out


def reveal_of(ex, lit, s):
    """a `PolynomialRevelationProtocol { .. }` literal -> Lean `Reveal` term"""
    name, fields = lit
    if name != "PolynomialRevelationProtocol": ex.fail(f"unexpected nested struct `{name}`", s)
    d = dict(fields)
    if sorted(d) != ["broadcasted", "parms_id", "participant", "result"]: ex.fail(f"PolynomialRevelationProtocol literal with fields {sorted(d)}", s)
    if d["participant"] not in (["self"] if ex.selfp else []) + list(ex.participants): ex.fail("reveal: `participant` is not the party", s)
    b = d["broadcasted"]
    if b in ex.env and ex.env[b][0] == "h": b = ex.env[b][1]
    else: b = ex.canon(b)
    if b != "vec![None;@count]": ex.fail(f"reveal: `broadcasted` is `{b}`, not one empty slot per participant", s)
    pid = ex.canon(d["parms_id"])
    if pid not in (f"*@{ex.level}.id", "*cipher.parms_id()" if ex.level == "CT" else "-", "*(p0p1.parms_id())" if ex.level == "PK" else "-"):
        ex.fail(f"reveal: parms_id `{pid}` is not the id of level {ex.level}", s)
    ex.use("pid"); ex.use("count")
    return f"(⟨pid, {ex.rd(d['result'])}, List.replicate count none⟩ : Reveal α)"


# ---------------------------------------------------------------------------------------------------------------- drivers
class Src:
    def __init__(self, m, tr):
        self.m = m; self.text = m.strip_comments(open(m.os.path.join(tr.repo, MP)).read())
    def fn(self, name, impl):
        m = self.m; src = self.text; lo, hi = 0, None
        if impl is not None:
            ms = list(re.finditer(r"\bimpl\s*(<[^>]*>)?\s*%s\s*(<[^>]*>)?\s*\{" % re.escape(impl), src))
            if len(ms) != 1: raise m.Unsupported(f"{MP}: `impl {impl}` found {len(ms)} times")
            lo = ms[0].end() - 1; hi = m.brace_block(src, lo, f"impl {impl}")
        hi = len(src) if hi is None else hi
        fs = list(re.finditer(r"\bfn\s+%s\s*(<[^>()]*>)?\s*\(" % re.escape(name), src[lo:hi]))
        if len(fs) != 1: raise m.Unsupported(f"{MP} (impl {impl}): fn {name} found {len(fs)} times")
        off = lo + fs[0].start()
        j = src.index("{", off); end = m.brace_block(src, j, f"fn {name}")
        return src[off:j], src[j + 1:end - 1]


def sig_of(ex, extra=(), plain=False):
    ps = [p for p in PARAM_ORDER if p in ex.params]
    s = "{α : Type} (o : Ops α)" + ("" if plain else " (sch : Scheme) (t : Nat)")
    for p in ps: s += f" ({p} : {PARAM_TYPE.get(p, 'α')})"
    for e in extra: s += " " + e
    for tp in ("commonTape", "selfTape"):
        if tp in ex.tapes: s += f" ({tp} : Tape α)"
    return s


def tapes_ret(ex): return [tp for tp in ("commonTape", "selfTape") if tp in ex.tapes]


def emit(name, doc, sig, rty, lines):
    return [f"/-- {doc} -/", f"def {name} {sig} : R ({rty}) := do"] + ["  " + l for l in lines] + [""]


def gen_sample_noise(m, S):
    U = m.Unsupported; what = f"{MP}: fn sample_noise"
    sig, body = S.fn("sample_noise", None)
    mm = re.search(r"\(\s*(\w+): &mut BlakeRNG, (\w+): usize, (\w+): &EncryptionParameters, (\w+): &\[NTTTables\], (\w+): bool, (\w+): &mut \[u64\]\s*\)", " ".join(sig.split()))
    if not mm: raise U(f"{what}: unexpected signature")
    rng, deg, parms, tabs, flag, out = mm.groups()
    b = body
    for a, c in ((rng, "RNG"), (deg, "DEG"), (parms, "PARMS"), (tabs, "TABS"), (flag, "FLAG"), (out, "OUT")): b = re.sub(r"(?<![\w.])%s\b" % a, "$" + c, b)
    mm = re.search(r"\blet\s+(\w+)\s*=\s*\$DEG\s*;", b)
    if mm: b = re.sub(r"(?<![\w.])%s\b" % mm.group(1), "$DEG", b[:mm.start()] + b[mm.end():])
    mm = re.search(r"\blet\s+(\w+)\s*=\s*\$PARMS\.scheme\(\)\s*;", b)
    if mm: b = re.sub(r"(?<![\w.])%s\b" % mm.group(1), "$PARMS.scheme()", b[:mm.start()] + b[mm.end():])
    b = re.sub(r"use [\w:]+;", "", squash(b))
    NTT = r"if\$FLAG\{polymod::ntt_p\(\$OUT,\$DEG,\$TABS\);\}"
    want = (r"rlwe::sample::centered_binomial\(\$RNG,\$PARMS,\$OUT\);match\$PARMS\.scheme\(\)\{SchemeType::BGV=>\{" + NTT +
            r"polymod::multiply_scalar_inplace_p\(\$OUT,\$PARMS\.plain_modulus\(\)\.value\(\),\$DEG,\$PARMS\.coeff_modulus\(\)\);\}_=>\{" + NTT + r"\}\}")
    if not re.fullmatch(want, b): raise U(f"{what}: body outside the accepted shape (draw cbd; match scheme {{ BGV => [ntt]; scale t, _ => [ntt] }}) :: `{b[:200]}`")
    return emit("sample_noise", "`sample_noise`: ONE centred-binomial draw; transformed when the flag is set; in BGV multiplied by the plain modulus AFTER the transform",
                "{α : Type} (o : Ops α) (sch : Scheme) (t : Nat) (isNttForm : Bool) (tape : Tape α)", "α × Tape α",
                ["let (out, tape) ← draw .cbd tape", "if sch = .bgv then do", "  let out := if isNttForm then o.toNtt out else out", "  let out ← o.scale t out", "  pure (out, tape)",
                 "else do", "  let out := if isNttForm then o.toNtt out else out", "  pure (out, tape)"])


def gen_constructor(m, S, fname, lean, doc):
    """`Participant::<fname>(&self, cipher, ..) -> XProtocol { .. reveals .. }`"""
    sig, body = S.fn(fname, "Participant")
    ex = Exec(m, f"{MP}: fn {fname}", "CT", True, set())
    tail = ex.run(body)
    name, fields = parse_struct_lit(tail, m.Unsupported, ex.what)
    rv = []
    for f, v in fields:
        if isinstance(v, tuple): rv.append(reveal_of(ex, v, tail))
        elif (f, v) in (("participant", "self"), ("cipher", "cipher.clone()")): pass
        else: ex.fail(f"result field `{f}: {v}` outside the accepted subset", tail)
    ret = rv + tapes_ret(ex)
    ex.lines.append("pure (" + ", ".join(ret) + ")")
    return emit(lean, doc + f" (result `{name}`: the reveal object(s) in field order, then the rest of the tape; the ciphertext is kept unchanged)", sig_of(ex),
                " × ".join(["Reveal α"] * len(rv) + ["Tape α"] * len(tapes_ret(ex))), ex.lines), ex


REVEALS_MAP = r"([a-z_]\w*)\.into_iter\(\)\.map\(\|([a-z_]\w*)\| \{ (PolynomialRevelationProtocol \{.*\}) \}\)\.collect::<Vec<_>>\(\)"
FINISH_MAP = r"([a-z_]\w*)\.into_iter\(\)\.map\(\|([a-z_]\w*)\| \2\.finish_take\(\)\)\.collect::<Vec<_>>\(\)"


class RlkExec(Exec):
    """additional statement forms of `RelinKeysGenerationProtocol::{new, step2, finish}`"""
    def __init__(self, *a):
        super().__init__(*a); self.out = {}; self.cts = {}; self.extra = []
    def let(self, name, mut, rhs, s, nxt):
        r = rhs.strip()
        mm = re.fullmatch(REVEALS_MAP, r)
        if mm: self.env[name] = ("reveals", self.reveals(mm, s)); return 1
        mm = re.fullmatch(r"std::mem::take\(&mut self\.(h[01]_disclosure)\)", r)
        if mm: self.env[name] = ("reveals", self.use_extra(mm.group(1))); return 1
        mm = re.fullmatch(FINISH_MAP, r)
        if mm and self.env.get(mm.group(1), ("",))[0] == "reveals":
            v = self.fresh("v"); self.lines.append(f"let {v} ← mapRM (reveal_finish o plainAdd false) {self.env[mm.group(1)][1]}")
            self.env[name] = ("vec", v); return 1
        mm = re.fullmatch(r"&?((?:self\.)?[a-z_]\w*)\[(\w+)\]", r)
        if mm and self.env.get(mm.group(1), ("",))[0] == "vec" and not mut:
            b = self.fresh("b"); self.lines.append(f"let {b} ← idxP {self.env[mm.group(1)][1]} {self.nat(mm.group(2))}"); self.env[name] = ("buf", b); return 1
        if r == "Ciphertext::new()": self.env[name] = ("ct", name); self.cts[name] = {"meta": set()}; return 1
        mm = re.fullmatch(r"vec!\[([a-z_]\w*)\]", r)
        if mm and self.env.get(mm.group(1), ("",))[0] == "vec": self.env[name] = ("wrap1", self.env[mm.group(1)][1]); return 1
        mm = re.fullmatch(r"KSwitchKeys::from_members\((.*), ([a-z_]\w*)\)", r)
        if mm and self.canon(mm.group(1)) == "*@KEY.id" and self.env.get(mm.group(2), ("",))[0] == "wrap1": self.env[name] = ("ksk", self.env[mm.group(2)][1]); return 1
        return super().let(name, mut, rhs, s, nxt)
    def use_extra(self, n):
        if n not in self.extra: self.extra.append(n)
        return {"h0_disclosure": "h0d", "h1_disclosure": "h1d"}[n]
    def reveals(self, mm, s):
        v = self.env.get(mm.group(1))
        if not v or v[0] != "vec": self.fail("`.into_iter().map(..)` on something that is not a vector of polynomials", s)
        sub = self.child(); sub.env[mm.group(2)] = ("buf", "x")
        term = reveal_of(sub, parse_struct_lit(mm.group(3), self.U, self.what), s)
        r = self.fresh("r"); self.lines.append(f"let {r} := {v[1]}.map (fun x => {term})"); return r
    def stmt(self, s, nxt):
        mm = re.fullmatch(r"self\.(h[01]_disclosure) = (.*);", s)
        if mm:
            m2 = re.fullmatch(REVEALS_MAP, mm.group(2))
            if not m2: self.fail("assignment to a disclosure field: not a map to fresh reveal objects", s)
            self.out[mm.group(1)] = self.reveals(m2, s); return 1
        mm = re.fullmatch(r"self\.h1 = ([a-z_]\w*);", s)
        if mm and self.env.get(mm.group(1), ("",))[0] == "vec": self.out["h1"] = self.env[mm.group(1)][1]; return 1
        mm = re.fullmatch(r"([a-z_]\w*)\.(\w+)\((.*)\);", s)
        if mm and self.env.get(mm.group(1), ("",))[0] == "ct":
            ct = self.cts[mm.group(1)]; f = mm.group(2); a = mm.group(3)
            metas = {"resize": "@CTX,@KEY.id,2", "set_is_ntt_form": "true", "set_scale": "1.0", "set_correction_factor": "1", "set_parms_id": "*@KEY.id"}
            if f in metas:
                if self.canon(a) != metas[f]: self.fail(f"key ciphertext metadata: `{f}({self.canon(a)})`", s)
                ct["meta"].add(f); return 1
        mm = re.fullmatch(r"([a-z_]\w*)\.poly_mut\(([01])\)\.copy_from_slice\((.*)\);", s)
        if mm and self.env.get(mm.group(1), ("",))[0] == "ct":
            x = self.rd(mm.group(3)); b = self.fresh("k"); self.lines.append(f"let {b} := {x}"); self.cts[mm.group(1)][int(mm.group(2))] = b; return 1
        mm = re.fullmatch(r"([a-z_]\w*)\.push\(PublicKey::from\(([a-z_]\w*)\)\);", s)
        if mm and self.env.get(mm.group(2), ("",))[0] == "ct" and self.env.get(mm.group(1), ("",))[0] == "vec":
            ct = self.cts[mm.group(2)]; v = self.env[mm.group(1)][1]
            if 0 not in ct or 1 not in ct or len(ct["meta"]) != 5: self.fail("key ciphertext pushed before both polynomials and all metadata were set", s)
            self.lines.append(f"let {v} := {v} ++ [({ct[0]}, {ct[1]})]"); self.out["pairvec"] = v
            if v in self.outer: self.touched.add(v)
            return 1
        return super().stmt(s, nxt)


def fix_pairvec(lines, v):
    return [l.replace(f"let {v} : List α := []", f"let {v} : List (α × α) := []") for l in lines]


def gen_rlk(m, S):
    out = []
    # new
    sig, body = S.fn("new", "RelinKeysGenerationProtocol")
    mm = re.search(r"\(\s*(\w+): &'a mut Participant\s*\)", sig)
    if not mm: raise m.Unsupported(f"{MP}: RelinKeysGenerationProtocol::new: unexpected signature")
    ex = RlkExec(m, f"{MP}: fn RelinKeysGenerationProtocol::new", "KEY", False, {mm.group(1)})
    tail = ex.run(body)
    name, fields = parse_struct_lit(tail, m.Unsupported, ex.what)
    d = dict(fields)
    if name != "Self" or sorted(d) != ["h0_disclosure", "h1", "h1_disclosure", "participant", "u"] or d["h1"] != "Vec::new()" or d["participant"] not in ex.participants:
        ex.fail("result literal outside the accepted shape", tail)
    def val(f, kind):
        v = ex.env.get(d[f])
        if not v or v[0] != kind: ex.fail(f"result field `{f}` is not a {kind}", tail)
        return v[1]
    ret = [val("h0_disclosure", "reveals"), val("h1_disclosure", "reveals"), val("u", "vec")] + tapes_ret(ex)
    ex.lines.append("pure (" + ", ".join(ret) + ")")
    out += emit("rlk_new", "`RelinKeysGenerationProtocol::new`: (h0_disclosure, h1_disclosure, u, rest of the common tape, rest of the own tape); field `h1` is empty",
                sig_of(ex), "List (Reveal α) × List (Reveal α) × List α × Tape α × Tape α", ex.lines)
    readings = dict(ex.readings)
    # step2
    sig, body = S.fn("step2", "RelinKeysGenerationProtocol")
    ex = RlkExec(m, f"{MP}: fn RelinKeysGenerationProtocol::step2", "KEY", False, set())
    ex.env["self.u"] = ("vec", "u")
    if ex.run(body): ex.fail("unexpected tail expression")
    if sorted(ex.out) != ["h0_disclosure", "h1", "h1_disclosure"]: ex.fail(f"fields assigned: {sorted(ex.out)}")
    ex.lines.append(f"pure ({ex.out['h0_disclosure']}, {ex.out['h1_disclosure']}, u, {ex.out['h1']}, selfTape)")
    out += emit("rlk_step2", "`RelinKeysGenerationProtocol::step2`: new (h0_disclosure, h1_disclosure, u, h1) and the rest of the own tape",
                sig_of(ex, ["(plainAdd : α → α → R α)", "(h0d h1d : List (Reveal α))", "(u : List α)"]), "List (Reveal α) × List (Reveal α) × List α × List α × Tape α", ex.lines)
    # finish
    sig, body = S.fn("finish", "RelinKeysGenerationProtocol")
    ex = RlkExec(m, f"{MP}: fn RelinKeysGenerationProtocol::finish", "KEY", False, set())
    ex.env["self.h1"] = ("vec", "h1")
    tail = ex.run(body)
    mm = re.fullmatch(r"RelinKeys::new\(([a-z_]\w*)\)", tail)
    if not mm or ex.env.get(mm.group(1), ("",))[0] != "ksk": ex.fail("tail is not `RelinKeys::new(KSwitchKeys::from_members(key id, vec![keys]))`", tail)
    ex.lines.append(f"pure {ex.env[mm.group(1)][1]}")
    out += emit("rlk_finish", "`RelinKeysGenerationProtocol::finish`: the key pairs (k0_j, k1_j) of the single key-switching key (index 0) of the result",
                sig_of(ex, ["(plainAdd : α → α → R α)", "(h0d h1d : List (Reveal α))", "(h1 : List α)"], plain=True), "List (α × α)", fix_pairvec(ex.lines, ex.out.get("pairvec", "?")))
    return out, readings


# ---------------------------------------------------------------------------------------------------------------- PolynomialRevelationProtocol
def gen_reveal(m, S):
    U = m.Unsupported; out = []
    # receive
    what = f"{MP}: fn PolynomialRevelationProtocol::receive"
    sig, body = S.fn("receive", "PolynomialRevelationProtocol")
    mm = re.search(r"\(&mut self, (\w+): usize, (\w+): &mut T\)", norm(sig))
    if not mm: raise U(f"{what}: unexpected signature")
    snd, strm = mm.groups()
    want = r"let (\w+)=PolynomialSerializer::deserialize_polynomial\(&self\.participant\.context,%s\)\?;self\.broadcasted\[%s\]=Some\(\1\);Ok\(\(\)\)" % (strm, snd)
    if not re.fullmatch(want, squash(body)): raise U(f"{what}: body outside the accepted shape (read one polynomial; store it in slot `sender_id`) :: `{squash(body)[:200]}`")
    out += emit("reveal_receive", "`PolynomialRevelationProtocol::receive`: the next polynomial of the stream OVERWRITES slot `sender` (index panic outside the vector); nothing else changes",
                "{α : Type} (p : Reveal α) (sender : Nat) (stream : List α)", "Reveal α × List α",
                ["let (m, stream) ← nextPoly stream", "let slots ← setP p.slots sender (some m)", "pure ({ p with slots := slots }, stream)"])
    # send
    what = f"{MP}: fn PolynomialRevelationProtocol::send"
    sig, body = S.fn("send", "PolynomialRevelationProtocol")
    mm = re.search(r"\(&self, (\w+): &mut T\)", norm(sig))
    if not mm: raise U(f"{what}: unexpected signature")
    want = r"PolynomialSerializer::serialize_polynomial\(&self\.participant\.context,%s,&self\.result,self\.parms_id\)\?;Ok\(\(\)\)" % mm.group(1)
    if not re.fullmatch(want, squash(body)): raise U(f"{what}: body outside the accepted shape (write `self.result`) :: `{squash(body)[:200]}`")
    out += ["/-- `PolynomialRevelationProtocol::send`: the message is the party's own polynomial (`result`), whatever has been received -/",
            "def reveal_send {α : Type} (p : Reveal α) : α := p.own", ""]
    # finish
    what = f"{MP}: fn PolynomialRevelationProtocol::finish"
    sig, body = S.fn("finish", "PolynomialRevelationProtocol")
    st = split_stmts(body, what, U)
    if len(st) != 3: raise U(f"{what}: {len(st)} top-level statements (3 expected: all_sent, assert, if)")
    s1, s2, s3 = [squash(body[a:b]) for a, b in st]; tail = squash(body[st[-1][1]:])
    PID = r"self\.participant\.participant_id"
    mm = re.fullmatch(r"let (\w+)=self\.broadcasted\.iter\(\)\.enumerate\(\)\.all\(\|\((\w+),(\w+)\)\|\3\.is_some\(\)\|\|\2==%s\);" % PID, s1)
    if not mm: raise U(f"{what}: completeness test outside the accepted shape :: `{s1[:200]}`")
    if not re.fullmatch(r'assert!\(%s,"[^"]*"\);' % mm.group(1), s2): raise U(f"{what}: the completeness test is not asserted :: `{s2[:120]}`")
    if tail != "&self.result": raise U(f"{what}: tail `{tail}`")
    j = body.index("{", st[2][0]); e1 = m.brace_block(body, j, what)
    if squash(body[st[2][0]:j]) != "if self.parms_id!=PARMS_ID_ZERO": raise U(f"{what}: third statement is not the `parms_id != PARMS_ID_ZERO` dispatch")
    rest = body[e1:st[2][1]]; m2 = re.match(r"\s*else\s*\{", rest)
    if not m2: raise U(f"{what}: dispatch without else")
    j2 = e1 + m2.end() - 1; e2 = m.brace_block(body, j2, what)
    def branch(text, lvl, kernel):
        ex = Exec(m, what, lvl, False, set())
        bs = split_stmts(text, what, U)
        for a, b in bs[:-1]: ex.stmt(norm(text[a:b]), [])
        f = norm(text[bs[-1][0]:bs[-1][1]])
        mm = re.fullmatch(r"for \((\w+), (\w+)\) in self\.broadcasted\.iter\(\)\.enumerate\(\) \{ if let Some\((\w+)\) = \2 \{ (polymod::\w+)\(&mut self\.result, \3, (.*)\); \} else \{ assert!\(\1 == %s\); \} \}" % PID, f)
        if not mm or text[bs[-1][1]:].strip(): ex.fail("the summation loop is outside the accepted shape (for every slot in order: filled -> add onto `result`; empty -> assert it is the own slot)", f)
        if mm.group(4) != kernel: ex.fail(f"summation kernel `{mm.group(4)}`", f)
        a = split_args(mm.group(5))
        if kernel == "polymod::add_inplace_p":
            if len(a) != 2: ex.fail("kernel arguments", f)
            ex.chk(a[0], "deg", f); ex.chk(a[1], "mod", f)
        elif len(a) != 1 or ex.canon(a[0]) != "@FIRST.t": ex.fail("plaintext-space sum: modulus is not the plain modulus", f)
    branch(body[j + 1:e1 - 1], "OWN", "polymod::add_inplace_p"); branch(body[j2 + 1:e2 - 1], "FIRST", "polymod::add_inplace")
    loop = "enumForFrom (fun i x acc => match x with | some m => %s acc m | none => do need (i == p.id); pure acc) 0 p.slots p.own"
    out += emit("reveal_finish", "`PolynomialRevelationProtocol::finish`: completeness assertion, then the filled slots are added IN SLOT ORDER onto the own polynomial "
                "(`parmsIdZero`: the plaintext-space variant used for secret-key revelation, `plainAdd` = `polymod::add_inplace` modulo t)",
                "{α : Type} (o : Ops α) (plainAdd : α → α → R α) (parmsIdZero : Bool) (p : Reveal α)", "α",
                ["let allSent := enumAllFrom (fun i (x : Option α) => x.isSome || i == p.id) 0 p.slots", "need allSent",
                 "if !parmsIdZero then", "  " + loop % "o.add", "else", "  " + loop % "plainAdd"])
    return out


# ---------------------------------------------------------------------------------------------------------------- protocol objects: receive / send / finish
RV = {"h_reveal": "hReveal", "h0_reveal": "h0Reveal", "h1_reveal": "h1Reveal", "p1_reveal": "p1Reveal", "h0_disclosure": "h0d", "h1_disclosure": "h1d"}


def gen_io(m, S, impl, lean, fn_recv, fn_send):
    U = m.Unsupported; out = []
    what = f"{MP}: fn {impl}::{fn_recv}"
    sig, body = S.fn(fn_recv, impl)
    mm = re.search(r"\(&mut self, (\w+): usize, (\w+): &mut T\)", norm(sig))
    if not mm: raise U(f"{what}: unexpected signature")
    snd, strm = mm.groups(); call = r"\.receive\(%s, %s\)" % (snd, strm)
    st = split_stmts(body, what, U); units = []
    texts = [norm(body[a:b]) for a, b in st]; tail = norm(body[st[-1][1] if st else 0:])
    for s in texts:
        m1 = re.fullmatch(r"self\.(\w+)%s\?;" % call, s)
        m2 = re.fullmatch(r"for (\w+) in self\.(\w+)\.iter_mut\(\) \{ \1%s\?; \}" % call, s)
        if m1: units.append(("one", m1.group(1)))
        elif m2: units.append(("each", m2.group(2)))
        else: raise U(f"{what}: statement outside the accepted subset :: `{s[:160]}`")
    m1 = re.fullmatch(r"self\.(\w+)%s" % call, tail)
    if m1: units.append(("one", m1.group(1)))
    elif tail != "Ok(())": raise U(f"{what}: tail `{tail}`")
    flds = []
    for k, f in units:
        if f not in RV: raise U(f"{what}: unknown reveal field `{f}`")
        if f in flds: raise U(f"{what}: field `{f}` receives twice")
        flds.append(f)
    lines = []
    for k, f in units:
        v = RV[f]
        lines.append(f"let ({v}, stream) ← reveal_receive {v} sender stream" if k == "one" else f"let ({v}, stream) ← mapStreamM (fun r s => reveal_receive r sender s) {v} stream")
    lines.append("pure (" + ", ".join([RV[f] for f in flds] + ["stream"]) + ")")
    ps = " ".join(f"({RV[f]} : {'Reveal α' if k == 'one' else 'List (Reveal α)'})" for k, f in units)
    out += emit(lean + "_" + fn_recv, f"`{impl}::{fn_recv}`: the reveal objects take the next polynomials of the stream, in this order; nothing else is touched",
                "{α : Type} " + ps + " (sender : Nat) (stream : List α)", " × ".join([("Reveal α" if k == "one" else "List (Reveal α)") for k, f in units] + ["List α"]), lines)
    # send
    what = f"{MP}: fn {impl}::{fn_send}"
    sig, body = S.fn(fn_send, impl)
    mm = re.search(r"\(&self, (\w+): &mut T\)", norm(sig))
    if not mm: raise U(f"{what}: unexpected signature")
    call = r"\.send\(%s\)" % mm.group(1)
    st = split_stmts(body, what, U); units2 = []
    texts = [norm(body[a:b]) for a, b in st]; tail = norm(body[st[-1][1] if st else 0:])
    for s in texts:
        m1 = re.fullmatch(r"self\.(\w+)%s\?;" % call, s)
        m2 = re.fullmatch(r"for (\w+) in self\.(\w+)\.iter\(\) \{ \1%s\?; \}" % call, s)
        if m1: units2.append(("one", m1.group(1)))
        elif m2: units2.append(("each", m2.group(2)))
        else: raise U(f"{what}: statement outside the accepted subset :: `{s[:160]}`")
    m1 = re.fullmatch(r"self\.(\w+)%s" % call, tail)
    if m1: units2.append(("one", m1.group(1)))
    elif tail != "Ok(())": raise U(f"{what}: tail `{tail}`")
    for k, f in units2:
        if f not in RV: raise U(f"{what}: unknown reveal field `{f}`")
    ps = " ".join(f"({RV[f]} : {'Reveal α' if k == 'one' else 'List (Reveal α)'})" for k, f in units2)
    term = " ++ ".join(f"[reveal_send {RV[f]}]" if k == "one" else f"{RV[f]}.map reveal_send" for k, f in units2)
    out += [f"/-- `{impl}::{fn_send}`: the message = the own polynomials of the reveal objects, in this order (independent of everything received) -/",
            f"def {lean}_{fn_send} {{α : Type}} {ps} : List α := {term}", ""]
    return out


class FinExec(Exec):
    """`finish` of the protocol objects: the stored ciphertext / key is an object with two polynomial slots"""
    OBJ = r"(self\.cipher|self\.result|[a-z_]\w*)(?:\.as_ciphertext(?:_mut)?\(\))?\.poly(?:_mut)?\(([01])\)"
    def slot(self, text):
        t = re.sub(r"^&(mut )?", "", text.strip())
        mm = re.fullmatch(self.OBJ, t)
        if mm and self.env.get(mm.group(1), ("",))[0] == "obj": return mm.group(1) + "#" + mm.group(2)
        return None
    def rd(self, text):
        k = self.slot(text)
        if k: self.use(self.env[k][1]) if self.env[k][1] in ("c0", "c1") else None; return self.env[k][1]
        return super().rd(text)
    def wr(self, text, term, monadic, stmt):
        k = self.slot(text)
        if not k: return super().wr(text, term, monadic, stmt)
        n = self.fresh("c"); self.lines.append(f"let {n} {'←' if monadic else ':='} {term}"); self.env[k] = ("buf", n)
    def mkobj(self, name):
        self.env[name] = ("obj", name); self.env[name + "#0"] = ("buf", "c0"); self.env[name + "#1"] = ("buf", "c1")
    def let(self, name, mut, rhs, s, nxt):
        mm = re.fullmatch(r"self\.(\w+)\.(finish_take|finish)\(\)", rhs.strip())
        if mm and mm.group(1) in RV:
            self.revs.append(mm.group(1)); b = self.fresh("h")
            self.lines.append(f"let {b} ← reveal_finish o plainAdd false {RV[mm.group(1)]}"); self.env[name] = ("buf", b); return 1
        if rhs.strip() in self.env and self.env[rhs.strip()][0] == "obj":
            o = rhs.strip(); self.env[name] = ("obj", name)
            for k in "01": self.env[name + "#" + k] = self.env[o + "#" + k]
            self.env[o] = ("moved", None); return 1
        return super().let(name, mut, rhs, s, nxt)
    def stmt(self, s, nxt):
        mm = re.fullmatch(r"(.*)\.copy_from_slice\((.*)\);", s)
        if mm and self.slot(mm.group(1)): self.wr(mm.group(1), self.rd(mm.group(2)), False, s); return 1
        return super().stmt(s, nxt)


def gen_finish(m, S, impl, lean, objname, doc):
    ex = FinExec(m, f"{MP}: fn {impl}::finish", "CT", False, set()); ex.revs = []
    ex.mkobj(objname)
    sig, body = S.fn("finish", impl)
    tail = norm(ex.run(body))
    ex.use("c0"); ex.use("c1")
    if tail in ex.env and ex.env[tail][0] == "obj":
        ex.lines.append(f"pure ({ex.env[tail + '#0'][1]}, {ex.env[tail + '#1'][1]})"); rty = "α × α"
    else:
        mm = re.fullmatch(r"decrypt_polynomial\((.*)\)", tail)
        a = split_args(mm.group(1)) if mm else []
        if len(a) != 4 or ex.canon(a[0]) != "@CTX" or not ex.slot(a[1]) or not ex.slot(a[1]).endswith("#0") or a[2] != "&" + ex.slot(a[1])[:-2] or a[3] != ex.slot(a[1])[:-2] + ".parms_id()":
            ex.fail("tail is neither the stored object nor `decrypt_polynomial(context, obj.poly(0), &obj, obj.parms_id())`", tail)
        ex.lines.append(f"pure {ex.rd(a[1])}"); rty = "α"
        doc += " - the polynomial handed to `decrypt_polynomial` (Model: `decryptPolynomial`, final decoding)"
    ps = ["(plainAdd : α → α → R α)"] + [f"({RV[f]} : Reveal α)" for f in ex.revs]
    return emit(lean, doc, sig_of(ex, ps, plain=True), rty, ex.lines)


def gen_public_key_new(m, S):
    """`Participant::generate_public_key`: the key generator call is an OPAQUE step (src/key.rs, src/util/rlwe.rs are outside this mode): its
    result is the pair of inputs (k0, k1); what is read off the source is WHICH polynomial is broadcast and what is stored"""
    U = m.Unsupported; what = f"{MP}: fn generate_public_key"
    sig, body = S.fn("generate_public_key", "Participant")
    b = re.sub(r",\}", "}", squash(body))
    b = re.sub(r"([{,])(\w+)(?=[,}])", r"\1\2:\2", b)         # field-init shorthand `f` = `f: f`
    want = (r"let (\w+)=self\.key_generator\.create_public_key_with_u_prng\(false,&mut self\.borrow_common_rng\(\)\);let (\w+)=vec!\[None;self\.participant_count\];"
            r"PublicKeyGenerationProtocol\{p1_reveal:PolynomialRevelationProtocol\{parms_id:\*\(\1\.parms_id\(\)\),participant:self,broadcasted:\2,"
            r"result:\1\.as_ciphertext\(\)\.poly\(0\)\.to_vec\(\)\},result:\1\}")
    if not re.fullmatch(want, b): raise U(f"{what}: body outside the accepted shape (key from the generator with the COMMON tape, unsaved seed; reveal object on poly(0); key stored) :: `{b[:300]}`")
    return ["/-- `Participant::generate_public_key`: (k0, k1) = the key `create_public_key_with_u_prng(false, common tape)` returns (opaque step; its reading",
            "    k1 = the common polynomial, k0 = `pkShare` is tied to the code by the `mp_share pk` lines); the reveal object broadcasts k0, the key is stored -/",
            "def generate_public_key {α : Type} (count : Nat) (pid : Nat) (k0 k1 : α) : Reveal α × (α × α) :=",
            "  ((⟨pid, k0, List.replicate count none⟩ : Reveal α), (k0, k1))", ""]


def generate(m, tr, spec):
    S = Src(m, tr)
    out = ["/- GENERATED by tools/rs2lean.py + tools/rs2lean_mp.py (via tools/extract.py) from src/multiparty/participant.rs -- do not edit.",
           "   Skeletons: polynomial buffers are values of an abstract type, the `polymod` kernels are operations of `HC.MP.Ops`, samplers are draws from a tape. -/",
           "import Heathcliff.Model.MpSkel", "import Heathcliff.Gen.Constants", "", "set_option linter.unusedVariables false", "", f"namespace HC.{spec['ns']}", "open HC HC.MP", ""]
    out += gen_sample_noise(m, S)
    out += gen_reveal(m, S)
    readings = {}
    for f, lean, doc in (("key_switch", "key_switch", "`Participant::key_switch`"), ("decrypt", "decrypt", "`Participant::decrypt`"),
                         ("public_key_switch", "public_key_switch", "`Participant::public_key_switch`")):
        l, ex = gen_constructor(m, S, f, lean, doc); out += l; readings.update(ex.readings)
    out += gen_public_key_new(m, S)
    l, r = gen_rlk(m, S); out += l; readings.update(r)
    out += gen_finish(m, S, "KeySwitchProtocol", "key_switch_finish", "self.cipher", "`KeySwitchProtocol::finish`: the stored ciphertext with the summed shares added to its first polynomial")
    out += gen_finish(m, S, "DecryptionProtocol", "decrypt_finish", "self.cipher", "`DecryptionProtocol::finish`")
    out += gen_finish(m, S, "PublicKeySwitchProtocol", "public_key_switch_finish", "self.cipher", "`PublicKeySwitchProtocol::finish`: (c0 + Σh0, Σh1)")
    out += gen_finish(m, S, "PublicKeyGenerationProtocol", "public_key_finish", "self.result", "`PublicKeyGenerationProtocol::finish`: the stored key (c0 = own share, c1 = common a) with c0 replaced by the sum")
    for impl, lean in (("PublicKeyGenerationProtocol", "public_key"), ("KeySwitchProtocol", "key_switch"), ("DecryptionProtocol", "decrypt"), ("PublicKeySwitchProtocol", "public_key_switch")):
        out += gen_io(m, S, impl, lean, "receive", "send")
    out += gen_io(m, S, "RelinKeysGenerationProtocol", "rlk", "receive_step1", "send_step1")
    out += gen_io(m, S, "RelinKeysGenerationProtocol", "rlk", "receive_step2", "send_step2")
    out += ["/-! operands (TRUSTED readings): " + "; ".join(f"`{v[0]}` = `{k}`: {v[1]}" for k, v in sorted(readings.items())) + " -/", "", f"end HC.{spec['ns']}", ""]
    return "\n".join(out)


SPEC = {"ns": "GenMp", "mp_mode": True}
