#!/usr/bin/env python3
"""Writes /verif/MANIFEST.json from tools/props.py (claimed properties) and tools/manifest_meta.py."""
import json, os, sys
ROOT = os.path.dirname(os.path.dirname(os.path.abspath(__file__)))
sys.path.insert(0, os.path.join(ROOT, "tools"))
import props, manifest_meta as M
ids = [json.loads(l)["id"] for l in open(os.path.join(ROOT, "properties.jsonl"))]
checks = []
for pid in ids:
    if pid not in props.P or pid in M.NOT_APPLICABLE: continue
    meta = M.CHECKS[pid]
    checks.append({
        "property_id": pid,
        "quick_cmd": f"./check {pid} --tier quick",
        "thorough_cmd": f"./check {pid} --tier thorough",
        "evidence_file": f"/verif/evidence/{pid}.json",
        "replay_cmd_template": f"./check {pid} --replay {{path}}",
        "engine": "lean4-model+correspondence",
        "level_claimed": {"category": props.P[pid].get("level", "proof"), "text": meta["text"], "design_ref": meta.get("design_ref", "DESIGN.md §6 " + pid)},
        "level_note": meta["note"],
        "technique": meta["technique"],
    })
na = [{"property_id": pid, "reason": M.NOT_APPLICABLE.get(pid, "check not built yet in this session (work in progress; see DESIGN.md §9 order of work)")}
      for pid in ids if pid not in props.P or pid in M.NOT_APPLICABLE]
man = {
    "version": 1,
    "setup_cmd": "./check --setup",
    "hooks": {
        "guard": "cargo feature `verif` of the heathcliff crate",
        "enable": "the harness crate /verif/harness depends on heathcliff = { path = \"/repo\", features = [\"verif\"] }",
        "baseline_off_cmd": "cd /repo && (cargo nextest run --workspace --no-fail-fast --tool-config-file pb:/w/lib/nextest.toml --profile pb --test-threads 8 --offline || cargo test --workspace --no-fail-fast --offline)",
        "source_commits": M.HOOK_COMMITS,
        "add_only": True,
    },
    "engines": [{"name": "lean4-model+correspondence", "path": "/verif/lean, /verif/harness, /verif/tools", "serves_properties": [c["property_id"] for c in checks],
                 "kind_free_text": "Lean 4 executable model + kernel-checked theorems (lake build, #print axioms audit); Gen/*.lean regenerated from the Rust source on every run; Rust harness runs the real code in-process and the compiled Lean driver runs model and spec on the same cases (three-way comparison)"}],
    "checks": checks,
    "notes": M.NOTES,
    "not_applicable": na,
}
json.dump(man, open(os.path.join(ROOT, "MANIFEST.json"), "w"), indent=1)
print("MANIFEST.json:", len(checks), "checks,", len(na), "not claimed")
