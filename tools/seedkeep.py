#!/usr/bin/env python3
"""Archive a confirmed seeded change under /verif/seeded/<id>/ and remove the scratch worktree.
usage: seedkeep.py <id> <mutation dir> <property> "<detected by / notes>" """
import sys, os, json, shutil, subprocess, glob
sid, d, prop, notes = sys.argv[1:5]
dst = os.path.join("/verif/seeded", sid); os.makedirs(dst, exist_ok=True)
shutil.copy(os.path.join(d, "patch.diff"), os.path.join(dst, "patch.diff"))
for f in glob.glob(os.path.join(d, "*.rs")) + glob.glob(os.path.join(d, "demo.patch")):
    shutil.copy(f, dst)
meta = json.load(open(os.path.join(d, "meta.json")))
meta.update({"breaks_property": prop, "confirmed": "in the sub-agent's scratch worktree: cargo build (with and without --features verif) ok, 78 lib tests pass with the change, demonstration fails with the change (see demo_cmd) and passes with the patch reversed — run by tools/seedtest.sh",
             "checks_run": notes})
json.dump(meta, open(os.path.join(dst, "meta.json"), "w"), indent=1)
subprocess.run(["git", "-C", "/repo", "worktree", "remove", "--force", os.path.join(d, "repo")])
shutil.rmtree(os.path.join(d, "target"), ignore_errors=True)
print("kept", dst, sorted(os.listdir(dst)))
