use heathcliff::{Ciphertext, CoeffModulus, EncryptionParameters, ExpandSeed, HeContext, SchemeType, SecurityLevel};
fn run(n: usize, k: usize, fill: u64) -> (Vec<u64>, Vec<u64>) {
    let cm = CoeffModulus::create(n, vec![30; k]);
    let p = EncryptionParameters::new(SchemeType::CKKS).set_poly_modulus_degree(n).set_coeff_modulus(&cm);
    let ctx = HeContext::new(p, false, SecurityLevel::None);
    assert!(ctx.parameters_set());
    let pid = ctx.first_parms_id().clone();
    let kn = k * n;
    let mut data: Vec<u64> = Vec::with_capacity(64);
    for i in 0..kn { data.push(11 + i as u64); }
    data.push(u64::MAX);
    for i in 1..kn { data.push(i as u64); }
    let before = data.clone();
    // spare capacity (beyond len): NOT part of the ciphertext's value
    unsafe { let p = data.as_mut_ptr(); for i in 2 * kn..64 { *p.add(i) = fill; } }
    let ct = Ciphertext::from_members(2, k, n, data, pid, 1.0, 1, false);
    assert!(ct.contains_seed());
    let e = ct.expand_seed(&ctx);
    (before, e.data().to_vec())
}
fn main() {
    deser_path();
    for (n, k) in [(4usize, 1usize), (8, 1), (4, 2), (16, 1)] {
        let (inp, a) = run(n, k, 0);
        let (_, b) = run(n, k, 0x0101010101010101);
        println!("n={} k={} words={} input={:?}\n  expand(fill=0)    = {:?}\n  expand(fill=0x01..) = {:?}\n  same_result={}", n, k, 2 * n * k, inp, a, b, a == b);
    }
}
#[allow(dead_code)]
pub fn deser_path() {
    let (n, k) = (4usize, 1usize);
    let cm = CoeffModulus::create(n, vec![30; k]);
    let p = EncryptionParameters::new(SchemeType::CKKS).set_poly_modulus_degree(n).set_coeff_modulus(&cm);
    let ctx = HeContext::new(p, false, SecurityLevel::None);
    let pid = ctx.first_parms_id().clone();
    let honest = Ciphertext::from_members(2, k, n, vec![11, 12, 13, 14, 5, 1, 2, 3], pid, 1.0, 1, false);
    let mut buf: Vec<u8> = vec![];
    honest.serialize_full(&ctx, &mut buf).unwrap();
    // the data words are the last 8 * 8 bytes of the stream: set word k*n (= c1[0]) to the seed flag
    let off = buf.len() - 8 * 8 + 8 * (k * n);
    for b in &mut buf[off..off + 8] { *b = 0xff; }
    let mut results = vec![];
    for round in 0..3 {
        // different heap neighbourhoods
        let _junk: Vec<Vec<u64>> = (0..round * 7).map(|i| vec![0x0202020202020202u64 * (i as u64 + 1); 8]).collect();
        let mut s = &buf[..];
        let ct = Ciphertext::deserialize_full(&ctx, &mut s).unwrap();
        results.push(ct.data().to_vec());
    }
    println!("deserialize_full of ONE byte string ({} bytes), three times:", buf.len());
    for r in &results { println!("  {:?}", r); }
}
